"""C03-C06: work-steal queues. Spec: WorkStealQueue.tla (design, sequential driver),
WSQConc.tla (design, concurrent length counter), Trace_WSQ.tla / Trace_WSQConc.tla
(observable layers). Drivers: harness wsq, wsq_conc."""
import json
import os
import random

from vlib import *  # noqa

CLAUSES = {
    "C03": {"dup", "phantom", "lost", "len", "gpop_empty", "spill_phantom", "spill_dup",
            "steal_phantom", "gpop_from_local", "conc_dup", "conc_phantom", "conc_lost", "conc_len"},
    "C04": {"hang", "panic", "abort"},
    "C05": {"order", "spill_order", "early_spill"},
    "C06": {"starved", "idle_empty"},
}

I64MIN, I64MAX = -(2 ** 63), 2 ** 63 - 1


def tlc_histories(cfg_text, name, wd, simulate=None, depth=None, sd=None, workers=4, timeout=300):
    """Generate operation histories with TLC from the design model."""
    cfg = "gen_%s_%d.cfg" % (name, os.getpid())
    path = os.path.join(SPEC, cfg)
    with open(path, "w") as f:
        f.write(cfg_text)
    try:
        r = tlc("WorkStealQueue", cfg, workers=(1 if simulate else workers), timeout=timeout,
                simulate=simulate, depth=depth, seed_=sd, metaname="gen_%s_%d" % (name, os.getpid()))
    finally:
        os.remove(path)
    if r.timeout:
        raise ToolError("history generation timed out (%s)" % name)
    hs = []
    for p in prints_tagged(r, "REPLAY"):
        hs.append(json.loads(p[0]))
    return hs, r


def gen_cfg(nq, cap, prios, ordered, maxops, maxitems, period=3):
    return """SPECIFICATION Spec
CONSTANTS
  NQ = %d
  Cap = %d
  Prios = {%s}
  Period = %d
  MaxItems = %d
  MaxOps = %d
  Ordered = %s
  Deviations = {}
INVARIANTS DumpHist
CHECK_DEADLOCK FALSE
""" % (nq, cap, ", ".join(str(p) for p in prios), period, maxitems, maxops, "TRUE" if ordered else "FALSE")


def rand_history(rng, nq, cap, prios, n, style):
    ops = []
    item = 0
    for _ in range(n):
        x = rng.random()
        if style == "mixed":
            w = [0.12, 0.08, 0.45, 0.35]
        elif style == "pushy":
            w = [0.1, 0.02, 0.6, 0.28]
        elif style == "steal":
            w = [0.05, 0.03, 0.42, 0.5]
        else:
            w = [0.25, 0.25, 0.25, 0.25]
        if x < w[0]:
            item += 1
            ops.append({"op": "gpush", "item": item, "prio": rng.choice(prios)})
        elif x < w[0] + w[1]:
            ops.append({"op": "gpop"})
        elif x < w[0] + w[1] + w[2]:
            item += 1
            q = 1 if (style == "steal" and rng.random() < 0.7) else rng.randint(1, nq)
            ops.append({"op": "lpush", "q": q, "item": item, "prio": rng.choice(prios)})
        else:
            q = rng.randint(1, nq)
            if style == "steal" and rng.random() < 0.6:
                q = rng.randint(2, nq) if nq > 1 else 1
            ops.append({"op": "lpop", "q": q})
    return ops


def starvation_history(rng, nq, cap, prios, rounds, fill=None, pop_first=False):
    """keep one local queue non-empty for > 61 pops while shared items wait; `fill` is the level the
    busy queue is held at (the bound holds at every level, also above half and at capacity)"""
    ops = []
    item = 0
    q = rng.randint(1, nq)
    for _ in range(min(cap, 3) if fill is None else fill):
        item += 1
        ops.append({"op": "lpush", "q": q, "item": item, "prio": rng.choice(prios)})
    for i in range(rounds):
        if i % 40 == rng.randint(0, 39) or i == 1:
            item += 1
            ops.append({"op": "gpush", "item": item, "prio": rng.choice(prios)})
        item += 1
        if pop_first:
            ops.append({"op": "lpop", "q": q})
            ops.append({"op": "lpush", "q": q, "item": item, "prio": rng.choice(prios)})
        else:
            ops.append({"op": "lpush", "q": q, "item": item, "prio": rng.choice(prios)})
            ops.append({"op": "lpop", "q": q})
    return ops


def idle_history(rng, nq, cap, prios):
    """fill a queue, let siblings steal, then check that idle queues find remaining work"""
    ops = []
    item = 0
    a = rng.randint(1, nq)
    for _ in range(rng.randint(1, cap + 2)):
        item += 1
        ops.append({"op": "lpush", "q": a, "item": item, "prio": rng.choice(prios)})
    for _ in range(rng.randint(1, 4)):
        b = rng.randint(1, nq)
        ops.append({"op": "lpop", "q": b})
    for _ in range(rng.randint(0, 3)):
        item += 1
        ops.append({"op": "lpush", "q": rng.randint(1, nq), "item": item, "prio": rng.choice(prios)})
    for _ in range(rng.randint(2, 8)):
        ops.append({"op": "lpop", "q": rng.randint(1, nq)})
    return ops


def prio_map(prios, extreme):
    if not extreme:
        return None
    real = sorted([I64MIN, -1, 0, 1, I64MAX][:len(prios)]) if len(prios) <= 5 else None
    if real is None:
        return None
    if len(prios) == 2:
        real = [I64MIN, I64MAX]
    elif len(prios) == 3:
        real = [I64MIN, 0, I64MAX]
    return {str(p): r for p, r in zip(sorted(prios), real)}


def build_scenarios(pid, tier, wd, cov):
    rng = random.Random(seed() * 7919 + hash(pid) % 1000)
    scs = []
    thorough = tier == "thorough"
    # (a) exhaustive short histories from the design model
    for (nq, cap, prios, ordered, k) in ([(2, 2, [0, 1], True, 5 if thorough else 4), (2, 2, [0], False, 6 if thorough else 5)]):
        hs, r = tlc_histories(gen_cfg(nq, cap, prios, ordered, k, k), "ex", wd, workers=4)
        cov["tlc_exhaustive_histories"] = cov.get("tlc_exhaustive_histories", 0) + len(hs)
        for h in hs:
            scs.append({"nq": nq, "cap": cap, "ordered": ordered, "ops": h, "src": "tlc-exhaustive"})
    # (b) random walks of the design model
    sims = [(2, 2, [0, 1], True), (3, 2, [0, 1, 2], True), (3, 4, [0, 1], True), (2, 3, [0, 1, 2], True),
            (2, 2, [0], False), (3, 4, [0], False), (2, 1, [0, 1], True), (3, 1, [0], False)]
    num = 60 if thorough else 12
    depth = 60 if thorough else 40
    for i, (nq, cap, prios, ordered) in enumerate(sims):
        hs, r = tlc_histories(gen_cfg(nq, cap, prios, ordered, depth, depth), "sim%d" % i, wd,
                              simulate=num, depth=depth + 1, sd=seed() + i)
        cov["tlc_simulated_histories"] = cov.get("tlc_simulated_histories", 0) + len(hs)
        for h in hs:
            scs.append({"nq": nq, "cap": cap, "ordered": ordered, "ops": h, "src": "tlc-simulate",
                        "prio_map": prio_map(prios, i % 2 == 1)})
    # (c) seeded long histories (capacities and lengths beyond the model's bounds)
    n_long = 40 if thorough else 10
    for i in range(n_long):
        nq = rng.choice([1, 2, 3, 4])
        cap = rng.choice([1, 2, 3, 4, 8, 256] if pid == "C04" else [1, 2, 3, 4, 8, 16])
        ordered = rng.random() < 0.7
        prios = rng.choice([[0], [0, 1], [0, 1, 2], [0, 1, 2, 3, 4]]) if ordered else [0]
        style = rng.choice(["mixed", "pushy", "steal"])
        n = rng.choice([200, 600, 2000] if thorough else [150, 400])
        if cap == 256:
            n = max(n, 900)
            style = "pushy"
        scs.append({"nq": nq, "cap": cap, "ordered": ordered, "ops": rand_history(rng, nq, cap, prios, n, style),
                    "src": "seeded-" + style, "prio_map": prio_map(prios, rng.random() < 0.5)})
    if pid in ("C06", "C03"):
        for i in range(12 if thorough else 4):
            nq = rng.choice([1, 2, 3])
            cap = rng.choice([2, 4, 8, 64])
            ordered = rng.random() < 0.6
            prios = rng.choice([[0], [0, 1], [0, 1, 2]]) if ordered else [0]
            scs.append({"nq": nq, "cap": cap, "ordered": ordered, "src": "seeded-starvation",
                        "ops": starvation_history(rng, nq, cap, prios, rng.choice([70, 130, 200]))})
    if pid == "C06":
        # the busy queue held at every fill level (own generator: the draws above stay as they were)
        rng2 = random.Random(seed() * 104729 + 6)
        for cap in ([1, 2, 3, 4, 8, 16, 64] if thorough else [1, 2, 4, 8]):
            for fill in sorted({1, max(1, cap // 2), min(cap, cap // 2 + 1), max(1, cap - 1), cap}):
                for ordered in (False, True):
                    for pop_first in (False, True):
                        prios = rng2.choice([[0], [0, 1], [0, 1, 2]]) if ordered else [0]
                        scs.append({"nq": rng2.choice([1, 2, 3]), "cap": cap, "ordered": ordered,
                                    "src": "seeded-starvation-fill",
                                    "ops": starvation_history(rng2, 1, cap, prios, rng2.choice([70, 130, 200]),
                                                              fill=fill, pop_first=pop_first)})
    if pid in ("C06", "C04", "C05"):
        for i in range(300 if thorough else 80):
            nq = rng.choice([2, 3, 4])
            cap = rng.choice([1, 2, 3, 4, 8])
            ordered = rng.random() < 0.7
            prios = rng.choice([[0], [0, 1], [0, 1, 2]]) if ordered else [0]
            scs.append({"nq": nq, "cap": cap, "ordered": ordered, "src": "seeded-idle",
                        "ops": idle_history(rng, nq, cap, prios)})
    for i, s in enumerate(scs):
        s["id"] = i + 1
        if s.get("prio_map") is None:
            s.pop("prio_map", None)
    return scs


def run_driver(bindir, scs, wd, name="wsq"):
    """run the single-thread driver over all scenarios, restarting it after a death"""
    spath = os.path.join(wd, "scenarios.jsonl")
    tpath = os.path.join(wd, "trace.ndjson")
    with open(spath, "w") as f:
        for s in scs:
            f.write(json.dumps(s, separators=(",", ":")) + "\n")
    if os.path.exists(tpath):
        os.remove(tpath)
    start = 0
    restarts = 0
    while start < len(scs):
        rc, out, err = run_bin(bindir, name, [spath, tpath, "--from", start, "--append"], timeout=900)
        if rc == 0:
            break
        recs = read_ndjson(tpath)
        last_reset = max((i for i, r in enumerate(recs) if r.get("ev") == "reset"), default=None)
        if last_reset is None:
            raise ToolError("driver %s failed before the first scenario: rc=%s %s" % (name, rc, err[-500:]))
        sid = recs[last_reset]["scenario"]
        if rc != 3:
            # the process was killed by a signal / abort: record it as data
            how = "abort" if rc in (-6, 134) else ("signal%s" % rc if rc is not None else "hang")
            recs.append({"ev": "died", "how": how if how in ("abort", "hang") else "abort",
                         "msg": "driver exit %s: %s" % (rc, err.strip()[-200:]), "scenario": sid, "step": 0,
                         "seq": 0, "th": 999})
            write_ndjson(tpath, recs)
        with open(tpath, "a") as f:
            f.write(json.dumps({"ev": "end", "scenario": sid, "seq": 0, "th": 999}) + "\n")
        start = sid  # ids are 1-based: restart with the scenario after the dead one
        restarts += 1
        if restarts > 100:
            # every death is already in the trace as data; do not spend the time budget on hundreds more
            log("NOTE the driver died in more than 100 scenarios: the remaining %d scenarios are skipped" % (len(scs) - start))
            break
    return tpath


def classify(pid, info, scs, trace_path, verdict):
    byid = {s["id"]: s for s in scs}
    mine = 0
    for v in info["viols"]:
        idx, clause, scen = v[0], v[1], v[2]
        detail = v[3] if len(v) > 3 else None
        sc = byid.get(scen, {})
        recd = {"clause": clause, "scenario_id": scen, "trace_index": idx, "detail": detail,
                "src": sc.get("src"), "ordered": sc.get("ordered"), "nq": sc.get("nq"), "cap": sc.get("cap"),
                "driver": "wsq", "scenario": sc if len(json.dumps(sc)) < 6000 else {k: sc[k] for k in sc if k != "ops"}}
        if clause in CLAUSES[pid]:
            verdict.add(recd)
            mine += 1
        else:
            verdict.note("clause %s (belongs to another property) observed in scenario %s" % (clause, scen))
    return mine


def self_test_binding(trace_path, wd):
    """corrupt one recorded field and delete one event: the validator must object to both"""
    recs = read_ndjson(trace_path)
    # take the first scenario that has a successful local pop
    end = next((i for i, r in enumerate(recs) if r.get("ev") == "end"), None)
    results = {}
    cands = []
    start = 0
    for i, r in enumerate(recs):
        if r.get("ev") == "reset":
            start = i
        if r.get("ev") == "end":
            seg = recs[start:i + 1]
            if any(x.get("ev") == "lpop_e" and x.get("item", 0) > 0 for x in seg) and len(seg) < 400:
                cands.append(seg)
                if len(cands) >= 3:
                    break
    if not cands:
        return None
    seg = cands[-1]
    # (1) corrupt: a pop returns an item that was never pushed
    c1 = [dict(x) for x in seg]
    for x in c1:
        if x.get("ev") == "lpop_e" and x.get("item", 0) > 0:
            x["item"] = 9999
            break
    # (2) delete: drop the first push-end event, so its item is never in the model
    c2 = [dict(x) for x in seg]
    for i, x in enumerate(c2):
        if x.get("ev") == "lpush_e":
            del c2[i]
            break
    ok = True
    for name, c in (("corrupt", c1), ("delete", c2)):
        p = os.path.join(wd, "selftest_%s.ndjson" % name)
        write_ndjson(p, c)
        info = validate_trace("Trace_WSQ", "Trace_WSQ.cfg", p, timeout=120)
        results[name] = len(info["viols"])
        if not info["viols"]:
            ok = False
    if not ok:
        raise ToolError("binding self-test failed: corrupted trace was accepted %s" % results)
    return results


def mc_stage(pid, tier, cov):
    """bounded model check of the design layer (Deviations = {} must satisfy every invariant;
    the stale-length deviation must produce its counterexample)"""
    states = trans = 0
    runs = []
    w = 8 if tier == "thorough" else 4
    insts = [("MC_WSQ_ord.cfg", None), ("MC_WSQ_plain.cfg", None), ("MC_WSQ_ord_stale.cfg", "NoViolation")]
    if pid == "C06":
        insts.append(("MC_WSQ_plain_consult_needs_room.cfg", "NoViolation"))
    if tier == "thorough":
        insts += [("MC_WSQ_ord3.cfg", None), ("MC_WSQ_ord_cap3.cfg", None)]
    for cfg, expect in insts:
        r = tlc("WorkStealQueue", cfg, workers=w, timeout=1500, coverage=False)
        require_mc_ok(r, cfg, expect_violation=expect)
        if expect is None:
            states += r.distinct
            trans += r.generated
        runs.append({"cfg": cfg, "distinct": r.distinct, "generated": r.generated, "depth": r.depth,
                     "expected_violation": expect, "wall_s": round(r.wall, 1)})
    cov["states"] = states
    cov["transitions"] = trans
    cov["mc_runs"] = runs


def run(pid, tier):
    v = Verdict(pid, tier)
    wd = workdir(pid)
    cov = {}
    bindir = build_harness()
    mc_stage(pid, tier, cov)
    scs = build_scenarios(pid, tier, wd, cov)
    tpath = run_driver(bindir, scs, wd)
    # (the thorough tier's trace has millions of records: validated in pieces cut at scenario boundaries)
    info = validate_split("Trace_WSQ", "Trace_WSQ.cfg", tpath, "reset", timeout=1500)
    if info["consumed"] != info["total"]:
        raise ToolError("trace not fully consumed (%s of %s): malformed record at index %s" %
                        (info["consumed"], info["total"], info["consumed"] + 1))
    classify(pid, info, scs, tpath, v)
    cov["traces_validated_against_impl"] = len(scs)
    cov["trace_records"] = info["total"]
    cov["scenario_sources"] = {}
    for s in scs:
        cov["scenario_sources"][s["src"]] = cov["scenario_sources"].get(s["src"], 0) + 1
    cov["selftest"] = self_test_binding(tpath, wd)
    if pid == "C03":
        conc_stage(bindir, tier, wd, cov, v)
    if pid in ("C04", "C03"):
        forced_spill_stage(pid, bindir, tier, wd, cov, v)
    if pid == "C05":
        # "a single pool worker runs queued tasks in priority order while no more tasks are queued
        # than the local capacity": pool driver, clause task_order of Trace_CoPool.tla
        import pool as poolcheck
        poolcheck.stage("C05", tier, v, cov, wd, bindir)
    cov["samples"] = [{"scenario": {k: (s[k] if k != "ops" else s[k][:12]) for k in s}} for s in scs[:2]] + \
                     [{"scenario": {k: (s[k] if k != "ops" else s[k][:12]) for k in s}} for s in scs[-1:]]
    cov["clauses_checked"] = sorted(CLAUSES[pid])
    cov["exhaustive"] = False
    cov["rule"] = ("histories: every history of the bounded design model up to a fixed length (TLC, exhaustive), "
                   "random walks of the design model (TLC -simulate) and seeded long histories; each is executed on the "
                   "real queues and the recorded trace is validated record by record against Trace_WSQ.tla")
    return v.finish(cov, assumptions=[
        "crossbeam Injector / SkipMap and st3 Worker/Stealer behave as documented when used by one thread",
        "hook events spill_b/spill/steal are emitted where DESIGN.md says (checked by the binding self-test)",
        "TLC explores the design model only inside the stated constants"])


# ---------------------------------------------------------------------------
# the owner's spill loop against sibling steals, forced through the `spill` hook event (C04; the items are
# also accounted for, C03)
# ---------------------------------------------------------------------------
def forced_spill_stage(pid, bindir, tier, wd, cov, v):
    for cfgname, expect in (("MC_SpillRace.cfg", None), ("MC_SpillRace_break_only_if_nothing_moved.cfg", "any")):
        r = tlc("SpillRace", cfgname, workers=4, timeout=600)
        require_mc_ok(r, cfgname, expect_violation=expect)
        if expect is None:
            cov["states"] = cov.get("states", 0) + r.distinct
            cov["transitions"] = cov.get("transitions", 0) + r.generated
        cov.setdefault("mc_runs", []).append({"cfg": cfgname, "distinct": r.distinct, "generated": r.generated,
                                              "expected_violation": r.violated if expect else None})
    scs = []
    for cap in ((4, 6, 8, 16, 32) if tier == "thorough" else (4, 8, 16)):
        for after in range(1, cap // 2):
            scs.append({"force": "spill_steal", "cap": cap, "after": after, "src": "forced-spill-steal"})
    if pid == "C03":
        # every shared push held between its count and its insert while another thread pops once
        for ordered in (True, False):
            scs.append({"force": "push_pop_gap", "ordered": ordered, "ops": 8, "src": "forced-push-pop-gap"})
    for i, s in enumerate(scs):
        s["id"] = i + 1
    tpath = drive(bindir, "wsq_conc", scs, wd, "creset", "cend", timeout=600, tag="_forced")
    info = validate_trace("Trace_WSQConc", "Trace_WSQConc.cfg", tpath, timeout=600)
    if info["consumed"] != info["total"]:
        raise ToolError("forced spill trace not fully consumed (%s of %s)" % (info["consumed"], info["total"]))
    mine = CLAUSES[pid]
    for x in info["viols"]:
        if x[1] in mine:
            v.add({"clause": x[1], "scenario_id": x[2], "detail": x[3] if len(x) > 3 else None, "driver": "wsq_conc",
                   "scenario": scs[x[2] - 1] if 0 < x[2] <= len(scs) else None})
    recs = read_ndjson(tpath)
    spilled = sum(1 for r in recs if r.get("ev") == "cend" and r.get("spills", 0) > 0)
    if spilled == 0 and not any(x[1] in ("hang", "abort", "panic") for x in info["viols"]):
        raise ToolError("forced spill stage: no scenario reached the spill loop - the stage is vacuous")
    cov["forced_spill_scenarios"] = len(scs)
    cov["forced_spill_reached"] = spilled
    cov["traces_validated_against_impl"] = cov.get("traces_validated_against_impl", 0) + len(scs)


# ---------------------------------------------------------------------------
# concurrent part of C03
# ---------------------------------------------------------------------------
def conc_stage(bindir, tier, wd, cov, v):
    r = tlc("WSQConc", "MC_WSQConc.cfg", workers=4, timeout=900)
    require_mc_ok(r, "MC_WSQConc.cfg")
    cov["states"] += r.distinct
    cov["transitions"] += r.generated
    cov["mc_runs"].append({"cfg": "MC_WSQConc.cfg", "distinct": r.distinct, "generated": r.generated})
    r2 = tlc("WSQConc", "MC_WSQConc_dev.cfg", workers=4, timeout=900)
    require_mc_ok(r2, "MC_WSQConc_dev.cfg", expect_violation="any")
    cov["mc_runs"].append({"cfg": "MC_WSQConc_dev.cfg", "expected_violation": r2.violated})
    r3 = tlc("WSQConc", "MC_WSQConc_pop_claims_first.cfg", workers=4, timeout=900)
    require_mc_ok(r3, "MC_WSQConc_pop_claims_first.cfg", expect_violation="any")
    cov["mc_runs"].append({"cfg": "MC_WSQConc_pop_claims_first.cfg", "expected_violation": r3.violated})
    rounds = 40 if tier == "thorough" else 10
    scs = []
    rng = random.Random(seed())
    for i in range(rounds):
        scs.append({"id": i + 1, "threads": rng.choice([2, 3, 4]), "cap": rng.choice([2, 4, 8, 64]),
                    "ordered": i % 2 == 0, "ops": rng.choice([400, 2000] if tier == "quick" else [2000, 20000]),
                    "seed": seed() * 1000 + i, "prios": rng.choice([1, 2, 3])})
    spath = os.path.join(wd, "conc_scenarios.jsonl")
    tpath = os.path.join(wd, "conc_trace.ndjson")
    with open(spath, "w") as f:
        for s in scs:
            f.write(json.dumps(s) + "\n")
    rc, out, err = run_bin(bindir, "wsq_conc", [spath, tpath], timeout=1200)
    if rc not in (0, 3):
        # abort / crash under concurrency is data
        with open(tpath, "a") as f:
            f.write(json.dumps({"ev": "summary", "scenario": 0, "died": "abort", "msg": err[-300:]}) + "\n")
    info = validate_split("Trace_WSQConc", "Trace_WSQConc.cfg", tpath, "creset", timeout=900)
    if info["consumed"] != info["total"]:
        raise ToolError("concurrent trace not fully consumed (%s of %s)" % (info["consumed"], info["total"]))
    byid = {s["id"]: s for s in scs}
    for x in info["viols"]:
        v.add({"clause": x[1], "scenario_id": x[2], "detail": x[3] if len(x) > 3 else None, "driver": "wsq_conc",
               "scenario": byid.get(x[2])})
    cov["traces_validated_against_impl"] += len(scs)
    cov["concurrent_rounds"] = len(scs)
