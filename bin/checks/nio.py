"""C16, C17, C18: hooked socket I/O loops. Spec: NioOps.tla, NioSyscall.tla (MC_Nio.tla), Trace_Nio.tla.
Driver: nio (scripted kernel through the fn_ptr seam, one process per scenario).
C18 also: connect / accept / accept4 - NioConn.tla, Trace_Conn.tla, driver conn."""
import random

from vlib import *  # noqa

CLAUSES = {
    "C16": {"ret_total", "ret_minus1", "zero_len", "errno", "placement"},
    "C17": {"iov_range", "iov_count"},
    "C18": {"nonblock_waited", "mode_changed"},
}
DEATH = {"panic", "abort", "hang", "join"}
DEVS = ["zero_len_minus_one", "err_after_partial", "nonblock_waits", "iov_offset_twice", "msg_iovlen_stale"]

GEN = """SPECIFICATION Spec
CONSTANTS
  Shapes <- %s
  MaxN = %d
  MaxCalls = %d
  Deviations = {"nonblock_waits"}
INVARIANTS DumpScript
CHECK_DEADLOCK FALSE
"""


SHARED_NOTES = {"blocking_eagain_at_once", "asked_blocking"}


def duplex_scenarios(reps):
    """NioShared.tla on the real code: a reader coroutine is parked in a hooked recv on the descriptor (the runtime has
    forced it non-blocking) while a write-family call is made on it by a thread or by another coroutine"""
    out = []
    for rep in range(reps):
        for call, vec, msg, shape in (("send", False, False, [3]), ("write", False, False, [3]), ("sendto", False, False, [3]),
                                      ("writev", True, False, [1, 2]), ("sendmsg", True, True, [1, 2])):
            for where in ("thread", "co"):
                base = {"call": call, "shape": shape, "vec": vec, "msg": msg, "isRead": False, "nonblock": False, "where": where}
                # the kernel says would-block once: a caller that left the descriptor blocking must be made to wait
                out.append(dict(base, duplex={"reader_limit_ms": 200}, script=[{"k": "wouldblock", "n": 0}, {"k": "xfer", "n": 3}], src="duplex-wait"))
                # the reader gives up and leaves while the writer is still in its retry loop
                out.append(dict(base, duplex={"reader_limit_ms": 25}, script=[{"k": "wouldblock", "n": 0}] * 5 + [{"k": "xfer", "n": 3}], src="duplex-reader-leaves-first"))
                # the descriptor is closed (hooked close) while the reader is parked on it: the reader's call is lost, the process is not
                if call == "send":
                    out.append(dict(base, duplex={"reader_limit_ms": 300, "close_after_ms": 20}, script=[], src="duplex-closed-under-reader"))
                # the writer is served at once and leaves first
                out.append(dict(base, duplex={"reader_limit_ms": 60}, script=[{"k": "xfer", "n": 3}], src="duplex-writer-leaves-first"))
                # reader and writer hold a descriptor each of the one socket (dup - what TcpStream::try_clone hands out)
                out.append(dict(base, duplex={"reader_limit_ms": 200, "dup": True}, script=[{"k": "wouldblock", "n": 0}, {"k": "xfer", "n": 3}], src="duplex-dup-wait"))
                out.append(dict(base, duplex={"reader_limit_ms": 25, "dup": True}, script=[{"k": "wouldblock", "n": 0}] * 5 + [{"k": "xfer", "n": 3}],
                                src="duplex-dup-reader-leaves-first"))
    return out


def calls_for(sc):
    if sc["isRead"]:
        if not sc["vec"]:
            return ["recv", "read", "recvfrom"]
        return ["recvmsg"] if sc["msg"] else ["readv"]
    if not sc["vec"]:
        return ["send", "write", "sendto"]
    return ["sendmsg"] if sc["msg"] else ["writev"]


CONN_GEN = """SPECIFICATION Spec
CONSTANTS
  MaxCalls = %d
  Deviations = {"nonblock_waits"}
INVARIANTS DumpScript
CHECK_DEADLOCK FALSE
"""
CONN_CLAUSES = {"nonblock_waited", "nonblock_errno", "mode_changed"}
CONN_NOTES = {"asked_blocking", "conn_result"}


def conn_stage(v, wd, tier, cov, bindir):
    """C18 for the calls that establish connections: connect, accept, accept4 (NioConn.tla, Trace_Conn.tla, driver conn)"""
    thorough = tier == "thorough"
    mc_runs("NioConn", [("MC_NioConn.cfg", None), ("MC_NioConn_nonblock_waits.cfg", "NonblockNeverWaits"),
                        ("MC_NioConn_mode_not_restored.cfg", "ModeRestored"), ("MC_NioConn_asks_blocking.cfg", "NeverAsksBlocking")], tier, cov)
    # every behaviour of the permissive variant (waits on a non-blocking descriptor are generated too: the code decides)
    cases, _ = tlc_replays("NioConn", CONN_GEN % (4 if thorough else 3), "all", timeout=600)
    cov["conn_tlc_behaviours"] = len(cases)
    scs = []
    for c in cases:
        kinds = [x["k"] for x in c["script"]]
        for call in (["connect"] if c["call"] == "connect" else ["accept", "accept4"]):
            for where in ("thread", "co"):
                for rep in range(3 if thorough else 1):
                    scs.append({"call": call, "nonblock": c["nonblock"], "limited": c["limited"], "script": c["script"], "where": where,
                                "kinds": " ".join(kinds), "src": "tlc"})
    for call in ("connect", "accept", "accept4"):
        for where in ("thread", "co"):
            scs.append({"call": call, "nonblock": False, "limited": False, "script": [{"k": "err"}], "where": where, "badfd": True,
                        "kinds": "err", "src": "bad-descriptor"})
    for i, s in enumerate(scs):
        s["id"] = i + 1
        s["errno_entry"] = [0, 4, 11, 115][i % 4]
        s["timeout_ms"] = 6000
    tpath = drive(bindir, "conn", scs, wd, "creset", "cend", timeout=3000, tag="_conn")
    info = validate_full("Trace_Conn", tpath)
    byid = {s["id"]: s for s in scs}
    notes = {}
    for x in info["viols"]:
        sc = byid.get(x[2], {})
        rec = {"clause": x[1], "scenario_id": x[2], "trace_index": x[0], "detail": x[3] if len(x) > 3 else None,
               "call": sc.get("call"), "family": "conn", "nonblock": sc.get("nonblock"), "script_kinds": sc.get("kinds"),
               "where": sc.get("where"), "driver": "conn", "scenario": sc}
        if x[1] in CONN_CLAUSES | DEATH:
            v.add(rec)
        else:
            notes[x[1]] = notes.get(x[1], 0) + 1
    if notes:
        v.note("connect / accept: observations outside the listed properties: %s" % notes)
    seg = first_segment(tpath, "creset", "cend", want=lambda s: s[0].get("nonblock") and any(r.get("ev") == "inner_r" and r.get("resp") == "pending" for r in s))
    if seg:
        # the binding: a recorded wait, a changed mode, another error number must each be rejected
        c1 = []
        for r in seg:
            c1.append(dict(r))
            if r.get("ev") == "inner_r":
                c1.append({"ev": "fd_wait", "kind": "r", "own": True})
        c2 = [dict(r) for r in seg]
        for r in c2:
            if r.get("ev") == "call_e":
                r["fl_nonblock"] = not r["fl_nonblock"]
        c3 = [dict(r) for r in seg]
        for r in c3:
            if r.get("ev") == "call_e":
                r["errno"] = 5
        cov["conn_selftest"] = selftest_mutations("Trace_Conn", wd, {"conn_insert_wait": c1, "conn_flip_mode": c2, "conn_corrupt_errno": c3})
    calls = {}
    for s in scs:
        calls[s["call"]] = calls.get(s["call"], 0) + 1
    cov["conn_scenarios_by_call"] = calls
    cov["conn_trace_records"] = info["total"]
    cov["traces_validated_against_impl"] = cov.get("traces_validated_against_impl", 0) + len(scs)
    return scs


def run(pid, tier):
    v = Verdict(pid, tier)
    wd = workdir(pid)
    cov = {}
    bindir = build_harness()
    conn_scs = conn_stage(v, wd, tier, cov, bindir) if pid == "C18" else []
    if pid == "C18":
        mc_runs("NioShared", [("MC_NioShared.cfg", None), ("MC_NioShared_mode_from_flag.cfg", "any"), ("MC_NioShared_restore_asserts.cfg", "NoAbort"),
                               ("MC_NioShared_keyed_by_number.cfg", "any"), ("MC_NioShared_uncounted_joiner.cfg", "ForcedWhileInProgress")], tier, cov)
    insts = [("MC_Nio.cfg", None)] + [("MC_Nio_%s.cfg" % d, "any") for d in DEVS]
    mc_runs("MC_Nio", insts, tier, cov)
    thorough = tier == "thorough"
    rng = random.Random(seed() * 29 + int(pid[1:]))
    # scripts: every behaviour of the design model (the permissive variant, so that waits on a
    # non-blocking descriptor are generated too and the real code decides)
    cases, _ = tlc_replays("MC_Nio", GEN % ("ShapesBig" if thorough else "ShapesSmall", 3, 4 if thorough else 3), "all", timeout=1800)
    cov["tlc_behaviours"] = len(cases)
    scs = []
    for c in cases:
        for call in calls_for(c):
            scs.append({"call": call, "shape": c["shape"], "vec": c["vec"], "msg": c["msg"], "isRead": c["isRead"],
                        "nonblock": c["nonblock"], "script": c["script"], "src": "tlc"})
    if pid == "C17":
        scs = [s for s in scs if s["vec"]]
        # an element count only the kernel can answer (-1): the call must come back with the kernel's refusal
        for call, rd in (("readv", True), ("writev", False)):
            for where in ("thread", "co"):
                scs.append({"call": call, "shape": [1, 2], "vec": False, "msg": False, "isRead": rd, "nonblock": False, "where": where, "neg_count": True,
                            "script": [{"k": "err", "n": 0}], "src": "bad-count"})
    if pid == "C18":
        nb = [s for s in scs if s["nonblock"]]
        bl = [s for s in scs if not s["nonblock"]]
        scs = nb + rng.sample(bl, min(len(bl), len(nb) // 2))
    cap = 40000 if thorough else 1600
    if len(scs) > cap:
        scs = rng.sample(scs, cap)
    if pid == "C18":
        scs += duplex_scenarios(3 if thorough else 1)
        # a descriptor that is not open: every hooked call hands the kernel's refusal back (and leaves without ado)
        for call, vec, msg, rd, shape in (("recv", False, False, True, [3]), ("read", False, False, True, [3]), ("recvfrom", False, False, True, [3]),
                                          ("readv", True, False, True, [1, 2]), ("recvmsg", True, True, True, [1, 2]),
                                          ("send", False, False, False, [3]), ("write", False, False, False, [3]), ("sendto", False, False, False, [3]),
                                          ("writev", True, False, False, [1, 2]), ("sendmsg", True, True, False, [1, 2])):
            for where in ("thread", "co"):
                scs.append({"call": call, "shape": shape, "vec": vec, "msg": msg, "isRead": rd, "nonblock": False, "where": where, "badfd": True,
                            "script": [{"k": "err", "n": 0}], "src": "bad-descriptor"})
    for i, s in enumerate(scs):
        s["id"] = i + 1
        s["limit_ms"] = 40 if any(x["k"] == "timeout" for x in s["script"]) else 0
        s.setdefault("where", "co" if (i % 7 == 0 and not s["nonblock"]) else "thread")
        s["timeout_ms"] = 6000
        # errno around successful kernel calls: a real kernel leaves it alone (the scripted one does too);
        # every third scenario starts with a stale error number in errno, every fifth lets successful
        # kernel calls leave an arbitrary one behind (POSIX allows both)
        s["errno_entry"] = [0, 4, 11][i % 3]
        s["errno_garbage"] = (i % 5 == 2)
    tpath = drive(bindir, "nio", scs, wd, "nreset", "nend", timeout=3400)
    info = validate_full("Trace_Nio", tpath)
    byid = {s["id"]: s for s in scs}
    mine = CLAUSES[pid] | DEATH
    other = {}
    shared = {}
    for x in info["viols"]:
        sc = byid.get(x[2], {})
        kinds = [k["k"] for k in sc.get("script", [])]
        rec = {"clause": x[1], "scenario_id": x[2], "trace_index": x[0], "detail": x[3] if len(x) > 3 else None,
               "call": sc.get("call"), "family": ("vec" if sc.get("vec") else "buf"), "nonblock": sc.get("nonblock"),
               "shape": sc.get("shape"), "script_kinds": " ".join(kinds), "request_len": sum(sc.get("shape", [0])),
               "where": sc.get("where"), "driver": "nio", "scenario": sc}
        if x[1] in mine:
            v.add(rec)
        elif x[1] in SHARED_NOTES:
            shared[x[1]] = shared.get(x[1], 0) + 1
        else:
            other[x[1]] = other.get(x[1], 0) + 1
    if other:
        v.note("clauses of other properties observed: %s" % other)
    if shared:
        v.note("shared descriptor (NioShared.tla), observations outside the listed properties: %s" % shared)
    seg = first_segment(tpath, "nreset", "nend", want=lambda s: any(r.get("ev") == "inner_r" and r.get("resp") == "xfer" for r in s) and
                        any(r.get("ev") == "call_e" and r.get("ret", -1) > 0 for r in s))
    if seg:
        c1 = [dict(r) for r in seg]
        for r in c1:
            if r.get("ev") == "call_e":
                r["ret"] = r["ret"] + 1
        c2 = [r for r in seg if not (r.get("ev") == "inner_r" and r.get("resp") == "xfer")]
        c3 = [dict(r) for r in seg]
        for r in c3:
            if r.get("ev") == "inner" and r.get("iov"):
                r["iov"] = [[x[0], x[1] + 1, x[2]] for x in r["iov"]]
                break
        cov["selftest"] = selftest_mutations("Trace_Nio", wd, {"corrupt_ret": c1, "delete_xfer": c2, "corrupt_iov": c3})
    calls = {}
    for s in scs:
        calls[s["call"]] = calls.get(s["call"], 0) + 1
    cov["scenarios_by_call"] = calls
    cov["traces_validated_against_impl"] = cov.get("traces_validated_against_impl", 0) + len(scs)
    cov["trace_records"] = info["total"]
    cov["samples"] = [scs[0], scs[-1]]
    cov["clauses_checked"] = sorted(CLAUSES[pid] | (CONN_CLAUSES if pid == "C18" else set()))
    cov["exhaustive"] = thorough
    return v.finish(cov, assumptions=["the scripted kernel is reached through the fn_ptr parameter of open_coroutine_core::syscall::*; "
                                      "is_socket, fcntl and getsockopt act on a real socketpair",
                                      "each would-block costs a real wait of at most 10 ms; a 'timeout' step is a 40 ms SO_RCVTIMEO/SO_SNDTIMEO"] +
                    (["connect / accept / accept4 run on loopback TCP sockets; the kernel call itself is scripted, the wait for readiness, "
                      "getpeername and SO_ERROR are real"] if pid == "C18" else []))
