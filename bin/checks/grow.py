"""C23: stack growth bookkeeping. Spec: StackGrowth.tla, Trace_StackGrowth.tla. Driver: grow."""
import random

from vlib import *  # noqa

CLAUSES = {"stale_segment", "no_room", "red_zone", "segs_in_callback", "segs_not_restored", "value",
           "deep_recursion_failed", "co_error", "unbalanced", "panic", "abort", "hang"}


def cfg(where, depth, ops, view):
    return """SPECIFICATION Spec
CONSTANTS
  MaxDepth = %d
  MaxOps = %d
  Where = "%s"
  Deviations = {}
%sINVARIANTS DumpHist
CHECK_DEADLOCK FALSE
""" % (depth, ops, where, "VIEW view\n" if view else "")


def run(pid, tier):
    v = Verdict(pid, tier)
    wd = workdir(pid)
    cov = {}
    bindir = build_harness()
    mc_runs("StackGrowth", [("MC_StackGrowth_co.cfg", None), ("MC_StackGrowth_thread.cfg", None),
                            ("MC_StackGrowth_thread_dev.cfg", "Consistent")], tier, cov)
    thorough = tier == "thorough"
    scs = []
    for where in ("co", "thread"):
        hs, _ = tlc_replays("StackGrowth", cfg(where, 3, 5 if thorough else 4, False), "ex_" + where)
        cov["tlc_exhaustive_programs"] = cov.get("tlc_exhaustive_programs", 0) + len(hs)
        scs += [{"where": where, "hist": h, "deep": 120, "src": "tlc-exhaustive"} for h in hs]
        hs, _ = tlc_replays("StackGrowth", cfg(where, 4, 14, False), "sim_" + where, simulate=(300 if thorough else 60),
                            depth=15, sd=seed())
        cov["tlc_simulated_programs"] = cov.get("tlc_simulated_programs", 0) + len(hs)
        scs += [{"where": where, "hist": h, "deep": 200, "src": "tlc-simulate"} for h in hs]
    rng = random.Random(seed())
    rng.shuffle(scs)
    if not thorough:
        scs = scs[:700]
    for i, s in enumerate(scs):
        s["id"] = i + 1
    tpath = drive(bindir, "grow", scs, wd, "greset", "gend")
    info = validate_full("Trace_StackGrowth", tpath)
    byid = {s["id"]: s for s in scs}
    for x in info["viols"]:
        sc = byid.get(x[2], {})
        rec = {"clause": x[1], "scenario_id": x[2], "trace_index": x[0], "detail": x[3] if len(x) > 3 else None,
               "where": sc.get("where"), "driver": "grow", "scenario": sc}
        if x[1] in CLAUSES:
            v.add(rec)
    seg = first_segment(tpath, "greset", "gend", want=lambda s: s[0].get("where") == "co" and
                        any(r.get("ev") == "grow_e" for r in s) and any(r.get("ev") == "cb" and r.get("on_new") for r in s), maxlen=2000)
    if seg:
        c1 = [dict(r) for r in seg]
        for r in c1:
            if r.get("ev") == "grow_e":
                r["segs"] = r["segs"] + 1
                break
        c2 = [dict(r) for r in seg]
        # drop the end of the last outermost call: a call that was entered never ends
        last = max(i for i, r in enumerate(c2) if r.get("ev") == "grow_e" and r.get("level") == 1)
        del c2[last]
        cov["selftest"] = selftest_mutations("Trace_StackGrowth", wd, {"corrupt": c1, "delete": c2})
    cov["traces_validated_against_impl"] = len(scs)
    cov["trace_records"] = info["total"]
    cov["samples"] = [scs[0], scs[-1]]
    cov["exhaustive"] = False
    return v.finish(cov, assumptions=["whether a call switched stacks is measured by comparing stack pointers (> 16 KiB apart)",
                                      "the thread path's segment list is observed through the hook at the entry of maybe_grow_with",
                                      "memory safety of the stack switch itself is not decided, only its bookkeeping consequences"])
