"""C10: scheduler. Spec: Scheduler.tla, Trace_Scheduler.tla. Driver: sched."""
import random

from vlib import *  # noqa

CLAUSES = {"early_wake", "missed_wake", "stranded_ready", "resumed_after_cancel", "ran_after_done", "result_twice",
           "result_value", "result_phantom", "result_missing", "never_finished", "pass_error", "panic", "abort", "hang"}
INFO = {"early_timeout"}


def cfg(nco, steps, maxt, ops, view):
    return """SPECIFICATION Spec
CONSTANTS
  NCo = %d
  MaxSteps = %d
  MaxT = %d
  MaxOps = %d
  Deviations = {}
%sINVARIANTS DumpHist
CHECK_DEADLOCK FALSE
""" % (nco, steps, maxt, ops, "VIEW view\n" if view else "")


def seeded(rng, nco, nsteps):
    """longer programs / more coroutines than the model's bound"""
    hist = []
    progs = {}
    for c in range(1, nco + 1):
        p = []
        for _ in range(rng.randint(0, nsteps)):
            x = rng.random()
            if x < 0.45:
                p.append({"a": "body", "c": c, "step": "suspend", "d": 0})
            elif x < 0.8:
                p.append({"a": "body", "c": c, "step": "delay", "d": rng.randint(1, 3)})
            else:
                p.append({"a": "body", "c": c, "step": "park", "d": rng.randint(1, 3)})
        p.append({"a": "body", "c": c, "step": rng.choice(["return", "return", "panic"]), "d": 0})
        # cancel requests made from inside a run slice (Scheduler!Iter, parameter sc): for the running coroutine
        # itself or for another one, just before the step that ends the slice
        for st in p:
            if rng.random() < 0.12:
                st["cancel"] = c if rng.random() < 0.6 else rng.randint(1, nco)
        progs[c] = p
    order = list(range(1, nco + 1))
    rng.shuffle(order)
    submitted = []
    for c in order:
        hist.append({"a": "submit", "c": c, "prio": rng.choice([0, 1, -5, 7])})
        submitted.append(c)
        if rng.random() < 0.4:
            hist.append({"a": "pass"})
        if rng.random() < 0.3:
            hist.append({"a": "tick"})
        if rng.random() < 0.25:
            hist.append({"a": "cancel", "c": rng.choice(submitted)})
        if rng.random() < 0.2:
            hist.append({"a": "try_resume", "c": rng.choice(submitted)})
    for _ in range(rng.randint(1, 6)):
        hist.append({"a": rng.choice(["pass", "tick", "pass"])})
        if rng.random() < 0.2:
            hist.append({"a": "cancel", "c": rng.choice(submitted)})
        if rng.random() < 0.3:
            hist.append({"a": "try_resume", "c": rng.choice(submitted)})
    for c in progs:
        hist += progs[c]
    return hist


def run(pid, tier):
    v = Verdict(pid, tier)
    wd = workdir(pid)
    cov = {}
    bindir = build_harness()
    insts = [("MC_Scheduler.cfg", None), ("MC_Scheduler_stale.cfg", "NoViolation"),
             ("MC_Scheduler_cancel_forgotten_on_yield.cfg", "NoViolation")]
    if tier == "thorough":
        insts.append(("MC_Scheduler_k3.cfg", None))
        insts.append(("MC_Scheduler_ops14.cfg", None))
    mc_runs("Scheduler", insts, tier, cov)
    thorough = tier == "thorough"
    rng = random.Random(seed() * 17 + 10)
    scs = []
    hs, _ = tlc_replays("Scheduler", cfg(2, 2, 3, 10 if thorough else 9, True), "fin")
    cov["tlc_final_state_histories"] = len(hs)
    cap = 3000 if thorough else 500
    if len(hs) > cap:
        hs = rng.sample(hs, cap)
    scs += [{"nco": 2, "hist": h, "src": "tlc-final-states"} for h in hs]
    for i, (nco, st, mt, d) in enumerate([(3, 3, 6, 30), (2, 4, 6, 26)]):
        hs, _ = tlc_replays("Scheduler", cfg(nco, st, mt, d, False), "sim%d" % i, simulate=(500 if thorough else 100),
                            depth=d + 1, sd=seed() + i)
        cov["tlc_simulated_histories"] = cov.get("tlc_simulated_histories", 0) + len(hs)
        scs += [{"nco": nco, "hist": h, "src": "tlc-simulate"} for h in hs]
    for i in range(600 if thorough else 120):
        nco = rng.choice([3, 5, 8])
        scs.append({"nco": nco, "hist": seeded(rng, nco, rng.choice([2, 4, 6])), "src": "seeded"})
    for i, s in enumerate(scs):
        s["id"] = i + 1
    tpath = drive(bindir, "sched", scs, wd, "sreset", "send", timeout=3000)
    info = validate_full("Trace_Scheduler", tpath)
    byid = {s["id"]: s for s in scs}
    infos = 0
    for x in info["viols"]:
        sc = byid.get(x[2], {})
        rec = {"clause": x[1], "scenario_id": x[2], "trace_index": x[0], "detail": x[3] if len(x) > 3 else None,
               "src": sc.get("src"), "driver": "sched", "scenario": sc}
        if x[1] in CLAUSES:
            v.add(rec)
        elif x[1] in INFO:
            infos += 1
    if infos:
        v.note("early_timeout: %d syscall-state wait(s) were timed out early by a stale syscall-timer entry after a callback wake "
               "(Scheduler.tla deviation 'stale_sys_timer'; the hooked waits re-check their own deadline, so no listed property is broken)" % infos)
    def good(s):
        for i, r in enumerate(s):
            if r.get("ev") == "yield" and r.get("kind") == "delay":
                co = r["co"]
                if any(x.get("ev") == "resumed" and x.get("co") == co for x in s[i + 1:]) and \
                        not any(x.get("ev") == "yield" and x.get("kind") == "delay" for x in s[:i]):
                    return any(x.get("ev") == "pass_e" and x.get("results") for x in s)
        return False
    seg = first_segment(tpath, "sreset", "send", want=good, maxlen=400)
    if seg:
        c1 = [dict(r) for r in seg]
        seen = False
        for r in c1:
            if r.get("ev") == "yield" and r.get("kind") == "delay":
                seen = r["co"]
                r["ts"] = r["ts"] + 50_000_000
                break
        c2 = [dict(r) for r in seg]
        for i, r in enumerate(c2):
            if r.get("ev") == "pass_e" and r.get("results"):
                r["results"] = []
                break
        cov["selftest"] = selftest_mutations("Trace_Scheduler", wd, {"corrupt": c1, "delete": c2})
    cov["traces_validated_against_impl"] = len(scs)
    cov["trace_records"] = info["total"]
    cov["samples"] = [scs[0], scs[-1]]
    cov["exhaustive"] = False
    return v.finish(cov, assumptions=["times are read from the scheduler's own clock (common::now) and compared at microsecond granularity",
                                      "one scheduler is alive at a time (schedulers share the process-wide ready queue and steal from each other by design)"])
