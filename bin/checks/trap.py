"""C24: a memory fault in a coroutine only fails that coroutine. Spec: Coroutine.tla (BFault),
Trace_Coroutine.tla (fault clauses + every lifecycle clause in scenarios that contain a fault)."""
import random

from vlib import *  # noqa
import coro

FAULT_CLAUSES = {"fault_message", "fault_not_error", "unwound", "panic", "abort", "hang"}
KINDS = ["null_write", "wild_read", "foreign_stack", "overflow", "overflow_grown"]
CODE = {"null_write": 900001, "wild_read": 900001, "foreign_stack": 900002, "overflow": 900000, "overflow_grown": 900000}


def has_fault(h):
    return any(x.get("a") == "fault" for x in h)


def seeded(rng, k, n):
    """healthy coroutines interleaved with one or two faulting ones, fault after some suspends"""
    hist = []
    v = 1
    faulty = set(rng.sample(range(1, k + 1), rng.choice([1, min(2, k)])))
    left = {c: rng.randint(0, n) for c in range(1, k + 1)}
    alive = set(range(1, k + 1))
    while alive:
        c = rng.choice(sorted(alive))
        hist.append({"a": "resume", "c": c, "arg": v})
        v += 1
        if left[c] > 0:
            left[c] -= 1
            hist.append({"a": "suspend", "c": c, "v": v})
            v += 1
            continue
        alive.discard(c)
        if c in faulty:
            kind = rng.choice(KINDS)
            hist.append({"a": "fault", "c": c, "kind": kind, "m": CODE[kind]})
        else:
            hist.append({"a": "return", "c": c, "r": v})
            v += 1
        hist.append({"a": "resume", "c": c, "arg": v})   # terminal states are absorbing
        v += 1
    return hist


def run(pid, tier):
    v = Verdict(pid, tier)
    wd = workdir(pid)
    cov = {}
    bindir = build_harness()
    coro.mc_stage(tier, cov)
    thorough = tier == "thorough"
    rng = random.Random(seed() * 31 + 24)
    scs = []
    for (k, ms, mr) in ([(1, 3, 4), (2, 2, 4)] if not thorough else [(1, 4, 5), (2, 3, 5), (3, 2, 4)]):
        hs, _ = coro.tlc_hists("ex", coro.gen_cfg(k, ms, mr))
        hs = [h for h in hs if has_fault(h)]
        cov["tlc_fault_behaviours"] = cov.get("tlc_fault_behaviours", 0) + len(hs)
        cap = 1500 if not thorough else 20000
        if len(hs) > cap:
            hs = rng.sample(hs, cap)
        scs += [{"k": k, "hist": h, "src": "tlc-final-states"} for h in hs]
    for i in range(400 if thorough else 120):
        k = rng.choice([2, 3])
        scs.append({"k": k, "hist": seeded(rng, k, rng.choice([0, 1, 3, 6])), "src": "seeded-interleaved"})
    for i, s in enumerate(scs):
        s["id"] = i + 1
        s["post_sleep"] = (i % 3 == 0)
    tpath = coro.run_driver(bindir, scs, wd)
    info = validate_full("Trace_Coroutine", tpath)
    byid = {s["id"]: s for s in scs}
    extra = {}
    for x in info["viols"]:
        sc = byid.get(x[2], {})
        rec = {"clause": x[1], "scenario_id": x[2], "trace_index": x[0], "detail": x[3] if len(x) > 3 else None,
               "src": sc.get("src"), "driver": "coro", "scenario": sc}
        if x[1] in coro.EXTRA or x[1] == "suspender_leak":
            extra[x[1]] = extra.get(x[1], 0) + 1
        else:
            # every scenario here contains a fault: any broken lifecycle / value clause is collateral damage
            v.add(rec)
    for k_, n in extra.items():
        v.note("%s observed %d time(s) (outside the listed properties)" % (k_, n))
    kinds = {}
    for s in scs:
        for x in s["hist"]:
            if x.get("a") == "fault":
                kinds[x["kind"]] = kinds.get(x["kind"], 0) + 1
    cov["fault_kinds_executed"] = kinds
    cov["traces_validated_against_impl"] = len(scs)
    cov["trace_records"] = info["total"]
    cov["selftest"] = coro.self_test(tpath, wd)
    cov["samples"] = [scs[0], scs[-1]]
    cov["exhaustive"] = False
    return v.finish(cov, assumptions=["only the state-machine consequences of a fault are decided (this is not a memory-safety proof)",
                                      "overflow programs must be classified 'stack overflow', wild / null accesses on a shallow stack 'invalid memory reference'"])
