"""C22: signal preemption (feature `preemptive`). Spec: Monitor.tla, Trace_Monitor.tla. Driver: preempt."""
import random

from vlib import *  # noqa

CLAUSES = {"not_preempted", "co_error", "syscall_preempted", "result_changed", "unfinished", "abort", "hang", "panic"}


def run(pid, tier):
    v = Verdict(pid, tier)
    wd = workdir(pid)
    cov = {}
    bindir = build_harness("preemptive", bins=["preempt"])
    mc_runs("Monitor", [("MC_Monitor.cfg", None), ("MC_Monitor_unsync_set.cfg", "NotCorrupt")], tier, cov)
    thorough = tier == "thorough"
    scs = []
    reps = 4 if thorough else 1
    for r in range(reps):
        for threads in (1, 2, 4, 8):
            for busy in ("running", "syscall"):
                scs.append({"threads": threads, "shorts": 0, "busy": busy, "stress": False, "src": "grid"})
        scs.append({"threads": 1, "shorts": 300, "busy": "running", "stress": False, "src": "one-thread-many-short"})
        scs.append({"threads": 2, "shorts": 50, "busy": "running", "stress": False, "src": "two-threads-some-short"})
        # many scheduling threads and many short coroutines: the open known finding lives here
        for threads in ((4, 8) if thorough else (4,)):
            scs.append({"threads": threads, "shorts": 300, "busy": "running", "stress": True, "src": "many-threads-many-short"})
    for i, s in enumerate(scs):
        s["id"] = i + 1
        s["timeout_ms"] = 15000
    tpath = drive(bindir, "preempt", scs, wd, "mreset", "mend", timeout=3000)
    info = validate_full("Trace_Monitor", tpath)
    byid = {s["id"]: s for s in scs}
    for x in info["viols"]:
        sc = byid.get(x[2], {})
        rec = {"clause": x[1], "scenario_id": x[2], "trace_index": x[0], "detail": x[3] if len(x) > 3 else None,
               "threads": sc.get("threads"), "shorts": sc.get("shorts"), "busy": sc.get("busy"), "stress": sc.get("stress"),
               "death": x[1] in ("abort", "hang", "panic", "unfinished"), "driver": "preempt", "scenario": sc}
        if x[1] in CLAUSES:
            v.add(rec)
    seg = first_segment(tpath, "mreset", "mend", want=lambda s: s[0].get("busy") == "running" and any(r.get("ev") == "quick" for r in s) and
                        any(r.get("ev") == "busy_e" for r in s), maxlen=5000)
    if seg:
        c1 = [r for r in seg if r.get("ev") != "quick"]
        c2 = [dict(r) for r in seg]
        for r in c2:
            if r.get("ev") == "busy_e":
                r["ok"] = False
        cov["selftest"] = selftest_mutations("Trace_Monitor", wd, {"delete_quick": c1, "corrupt_result": c2})
    cov["traces_validated_against_impl"] = len(scs)
    cov["trace_records"] = info["total"]
    cov["samples"] = [scs[0], scs[-1]]
    cov["exhaustive"] = False
    return v.finish(cov, assumptions=["signal preemption works in this sandbox (checked: a busy coroutine is suspended after about 10 ms)",
                                      "the busy computation is calibrated to about 45 ms; 'not preempted' needs >= 30 ms without the quick coroutine running",
                                      "a crash or hang of the child process is recorded as data"])
