"""C22: signal preemption (feature `preemptive`). Spec: Monitor.tla, Trace_Monitor.tla. Driver: preempt."""
import random

from vlib import *  # noqa
from vlib import _collect_prints as vlib_collect

CLAUSES = {"monitor_skipped", "never_signalled", "signal_ignored", "sibling_not_run", "monitor_dead", "co_error", "syscall_preempted", "result_changed",
           "unfinished", "abort", "hang", "panic"}
TIMING = {"monitor_dead", "never_signalled"}
MIG_CLAUSES = {"foreign_current", "stale_current", "order", "unfinished", "abort", "hang", "panic"}


def migrate_stage(v, wd, tier, cov):
    """Migrate.tla: the per-thread current-suspender stacks - what the SIGURG handler and every hooked call
    look at - while yielded coroutines are stolen and resumed by other scheduling threads."""
    bindir = build_harness(bins=["mig"])
    mc_runs("Migrate", [("MC_Migrate.cfg", None), ("MC_Migrate_cached_tls.cfg", "CurrentExact")], tier, cov)
    thorough = tier == "thorough"
    scs = []
    rnd = random.Random(seed())
    for rep in range(6 if thorough else 1):
        # forced: thread 1 starts every coroutine, then blocks inside its last one while the others steal
        for threads, cos, susp in ((2, 8, 3), (3, 24, 2), (4, 40, 4), (8, 120, 3)):
            scs.append({"threads": threads, "cos": cos, "susp": susp, "work": 2000, "stop_ms": 30, "src": "forced-steal"})
        # free running
        for threads, cos, susp in ((2, 16, 4), (4, 64, 3)):
            scs.append({"threads": threads, "cos": cos, "susp": susp, "work": rnd.choice([500, 2000, 20000]), "stop_ms": 0, "src": "free"})
        scs.append({"threads": 1, "cos": 8, "susp": 3, "work": 2000, "stop_ms": 0, "src": "one-thread"})
    for i, s in enumerate(scs):
        s["id"] = i + 1
        s["timeout_ms"] = 12000
    tpath = drive(bindir, "mig", scs, wd, "greset", "gend", timeout=3000, tag="_mig")
    sanitize_ndjson(tpath, "gend")
    info = validate_full("Trace_Migrate", tpath)
    byid = {s["id"]: s for s in scs}
    for x in info["viols"]:
        sc = byid.get(x[2], {})
        if x[1] in MIG_CLAUSES:
            v.add({"clause": "migrate_" + x[1], "scenario_id": x[2], "trace_index": x[0], "detail": x[3] if len(x) > 3 else None,
                   "threads": sc.get("threads"), "stress": False, "death": x[1] in ("abort", "hang", "panic"),
                   "driver": "mig", "scenario": sc})
    class _R:  # noqa
        prints = vlib_collect(info["out"])
    moved = {st[0]: st[1] for st in prints_tagged(_R, "STAT")}
    forced = [s["id"] for s in scs if s["src"] == "forced-steal"]
    dead = {x[2] for x in info["viols"] if x[1] in ("abort", "hang", "panic", "unfinished")}
    idle = [i for i in forced if moved.get(i, 0) == 0 and i not in dead]
    if idle:
        v.note("migrate: %d forced-steal scenario(s) saw no migration (not exercised): %s" % (len(idle), idle[:5]))
    if not any(moved.get(i, 0) > 0 for i in forced) and not dead:
        raise ToolError("migrate stage: no scenario produced a migration - the stage is vacuous")
    seg = first_segment(tpath, "greset", "gend", want=lambda s: s[0].get("stop_ms", 0) > 0 and not any(r.get("ev") == "died" for r in s), maxlen=2000)
    if seg:
        c1 = [dict(r) for r in seg]
        done = False
        for r in c1:
            if r.get("ev") == "g_body" and r.get("k", 0) >= 1 and not done:
                r["cur"] = 0
                done = True
        c2 = [dict(r) for r in seg]
        for r in c2:
            if r.get("ev") == "g_idle":
                r["cur"] = -1
        cov.setdefault("selftest", {}).update(selftest_mutations("Trace_Migrate", wd, {"mig_corrupt_current": c1, "mig_stale_idle": c2}))
    cov["migrate"] = {"scenarios": len(scs), "records": info["total"], "migrations_observed": sum(moved.values()),
                      "forced_scenarios_with_migration": sum(1 for i in forced if moved.get(i, 0) > 0)}
    return len(scs), info["total"], scs[0]


def run(pid, tier):
    v = Verdict(pid, tier)
    wd = workdir(pid)
    cov = {}
    n_mig, rec_mig, sample_mig = migrate_stage(v, wd, tier, cov)
    bindir = build_harness("preemptive", bins=["preempt"])
    mc_runs("Monitor", [("MC_Monitor.cfg", None), ("MC_Monitor_unsync_set.cfg", "NotCorrupt"),
                        ("MC_Monitor_handler_preempts_in_monitor.cfg", "NoSelfDeadlock")], tier, cov)
    thorough = tier == "thorough"
    scs = []
    reps = 4 if thorough else 1
    for r in range(reps):
        for threads in (1, 2, 4, 8):
            for busy in ("running", "syscall"):
                scs.append({"threads": threads, "shorts": 0, "busy": busy, "stress": False, "src": "grid"})
        # the busy coroutine is stolen by another scheduling thread after its first slice and must be preempted there too
        scs.append({"threads": 2, "shorts": 0, "busy": "running", "steal": True, "busy_ms": 90, "stress": False, "src": "stolen-after-first-slice"})
        # a signal delivered while a coroutine that returns from a system call is inside the monitor's listener, holding
        # the blocker's lock, on its own stack (Monitor!DeliverInside; delivered by the driver at the pause point)
        scs.append({"threads": 1, "shorts": 0, "busy": "syscall", "storm": 20, "stress": False, "src": "signal-inside-monitor-listener"})
        # a late SIGURG while the coroutine is already inside its system call (delivered by the driver)
        for threads in (1, 4):
            scs.append({"threads": threads, "shorts": 0, "busy": "syscall", "sig_self": True, "stress": False, "src": "late-signal-in-syscall"})
        scs.append({"threads": 1, "shorts": 300, "busy": "running", "stress": False, "src": "one-thread-many-short"})
        scs.append({"threads": 2, "shorts": 50, "busy": "running", "stress": False, "src": "two-threads-some-short"})
        # many scheduling threads and many short coroutines: the open known finding lives here
        for threads in ((4, 8) if thorough else (4,)):
            scs.append({"threads": threads, "shorts": 300, "busy": "running", "stress": True, "src": "many-threads-many-short"})
    for i, s in enumerate(scs):
        s["id"] = i + 1
        s["timeout_ms"] = 15000
    tpath = drive(bindir, "preempt", scs, wd, "mreset", "mend", timeout=3000)
    sanitize_ndjson(tpath, "mend")
    info = validate_full("Trace_Monitor", tpath)
    byid = {s["id"]: s for s in scs}

    class _R:  # noqa
        prints = vlib_collect(info["out"])
    scans = {st[0]: st[1] for st in prints_tagged(_R, "STAT")}
    for x in info["viols"]:
        sc = byid.get(x[2], {})
        rec = {"clause": x[1], "scenario_id": x[2], "trace_index": x[0], "detail": x[3] if len(x) > 3 else None,
               "threads": sc.get("threads"), "shorts": sc.get("shorts"), "busy": sc.get("busy"), "stress": sc.get("stress"),
               "death": x[1] in ("abort", "hang", "panic", "unfinished"), "driver": "preempt", "scenario": sc}
        if x[1] in TIMING:
            # timing clause: must reproduce in 2 of 2 further attempts of the same scenario run alone
            again = 0
            for k in range(2):
                one = dict(sc)
                one["id"] = 1
                t2 = drive(bindir, "preempt", [one], wd, "mreset", "mend", timeout=600, tag="_retry%d" % k)
                sanitize_ndjson(t2, "mend")
                i2 = validate_full("Trace_Monitor", t2)
                again += 1 if any(y[1] == x[1] for y in i2["viols"]) else 0
            if again < 2:
                v.note("timing clause %s of scenario %s did not reproduce (%d of 2): not reported" % (x[1], x[2], again))
                continue
        if x[1] in CLAUSES:
            v.add(rec)
    idle = [i for i, n in scans.items() if n == 0 and byid.get(i, {}).get("busy") == "running"]
    if idle:
        v.note("preempt: the monitor made no scan in scenario(s) %s (machine too busy?): the preemption clauses were not exercised there" % idle[:6])
    if scans and all(n == 0 for n in scans.values()):
        raise ToolError("preempt stage: the monitor thread was never observed scanning - the stage is vacuous")
    seg = first_segment(tpath, "mreset", "mend", want=lambda s: s[0].get("busy") == "running" and s[0].get("threads") == 1 and
                        any(r.get("ev") == "mon_sig" for r in s) and any(r.get("ev") == "busy_e" for r in s) and
                        not any(r.get("ev") == "died" for r in s), maxlen=5000)
    if seg:
        # the handler "ignores" the signal: no Suspend of the busy coroutine is ever reported
        c1 = [r for r in seg if not (r.get("ev") == "chg" and r.get("co") == 1 and r.get("new") == "Suspend")]
        # the monitor "skips" the overdue thread: no signal is ever reported, the coroutine is never suspended
        first_sus = next((i for i, r in enumerate(seg) if r.get("ev") == "chg" and r.get("co") == 1 and r.get("new") == "Suspend"), None)
        c2 = [r for i, r in enumerate(seg) if r.get("ev") != "mon_sig" and not (r.get("ev") == "chg" and r.get("co") == 1 and r.get("new") in ("Suspend", "Running") and
                                                                               first_sus is not None and i >= first_sus)]
        c3 = [dict(r) for r in seg]
        for r in c3:
            if r.get("ev") == "busy_e":
                r["ok"] = False
        c4 = [r for r in seg if r.get("ev") != "quick"]
        cov.setdefault("selftest", {}).update(selftest_mutations("Trace_Monitor", wd, {
            "drop_suspends": c1, "drop_signals": c2, "corrupt_result": c3, "delete_quick": c4}))
    cov["traces_validated_against_impl"] = len(scs) + n_mig
    cov["trace_records"] = info["total"] + rec_mig
    cov["samples"] = [scs[0], scs[-1], sample_mig]
    cov["exhaustive"] = False
    return v.finish(cov, assumptions=["signal preemption works in this sandbox (checked: a busy coroutine is suspended after about 10 ms)",
                                      "the busy computation is calibrated to about 45 ms; 'not preempted' needs >= 30 ms without the quick coroutine running",
                                      "a crash or hang of the child process is recorded as data"])
