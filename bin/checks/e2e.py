"""C01, C02 (and the e2e parts of C12 / C15): EventLoops end to end. Spec: EventLoops.tla (design),
CoPool.tla / WorkStealQueue.tla (components), Trace_E2E.tla. Driver: e2e (one process per scenario);
the pool-level clauses of the same properties come from the pool driver."""
import random

from vlib import *  # noqa
import pool as poolcheck

CLAUSES = {
    "C01": {"ran_twice", "stranded", "submit_hang"},
    "C02": {"wrong_result", "late_join", "join_timeout_finished"},
    "C12": {"stop_lost_task", "accepted_after_stop"},
    "C15": {"no_overlap", "loop_stalled"},
}
DEATH = {"panic", "abort", "hang"}


def scenarios(pid, tier, rng):
    thorough = tier == "thorough"
    scs = []
    if pid == "C01":
        for loops in (1, 2, 3):
            for m in (1, 2, 4):
                for body in ("trivial", "mix"):
                    per = (600 if thorough else 120) // m
                    scs.append({"loops": loops, "submitters": m, "per": per, "body": body, "join": False, "max": 64})
        scs.append({"loops": 3, "submitters": 1, "per": 3 * 256 + 40, "body": "trivial", "join": False, "max": 64})
        scs.append({"loops": 3, "submitters": 4, "per": 200, "body": "trivial", "join": False, "max": 64})
        # submissions held between the count and the insert of their push into the shared queue while the loops poll
        for loops in (1, 2):
            scs.append({"loops": loops, "submitters": 2, "per": 24, "body": "trivial", "join": False, "max": 64, "gap_every": 5})
        if thorough:
            for i in range(10):
                scs.append({"loops": rng.choice([1, 2, 3, 4]), "submitters": rng.choice([2, 4, 8]), "per": rng.choice([100, 400]),
                            "body": rng.choice(["trivial", "mix"]), "join": False, "max": 64})
    elif pid == "C02":
        for loops in (1, 2, 3):
            for m in (1, 2):
                for body in ("mix", "busy"):
                    scs.append({"loops": loops, "submitters": m, "per": (60 if thorough else 24) // m, "body": body, "join": True,
                                "join_ms": 400, "max": 8})
    elif pid == "C12":
        for loops in (1, 2):
            for m in (1, 2):
                scs.append({"loops": loops, "submitters": m, "per": 150, "body": "trivial", "join": False, "max": 16,
                            "stop_after_ms": rng.choice([1, 3, 6])})
        # the two LoopStop.tla counterexamples (deviations announce_in_thread, unguarded_submit) forced on the
        # real threads through pause points: a stop that arrives while the loop threads are still starting, and a
        # stop that runs while one submitter sits between the pool's state check and its push
        for loops in (1, 2):
            for late in ((40, 120) if thorough else (60,)):
                scs.append({"loops": loops, "submitters": 2, "per": 40, "body": "trivial", "join": False, "max": 16,
                            "stop_after_ms": rng.choice([0, 1, 2]), "late_loop_ms": late})
            for k in ((1, 35, 80) if thorough else (rng.choice([1, 20, 35]), 80)):
                scs.append({"loops": loops, "submitters": 2, "per": 40, "body": "trivial", "join": False, "max": 16,
                            "stop_after_ms": 1, "race_task": k})
    elif pid == "C15":
        for n in (2, 4, 8):
            for d in (100, 300) if thorough else (100,):
                scs.append({"loops": 1, "submitters": 1, "per": n, "body": "sleep", "sleep_ms": d, "join": True, "join_ms": 3000, "max": 16})
                scs.append({"loops": 1, "submitters": 1, "per": n, "body": "recvwait", "sleep_ms": d, "join": True, "join_ms": 3000, "max": 16})
            # a socket shared by a reader and a writer task: the parked reader must not keep the loop from running the others
            if n >= 4:
                scs.append({"loops": 1, "submitters": 1, "per": n, "body": "duplex", "sleep_ms": 1000, "join": True, "join_ms": 4000, "max": 16})
            # worker creations that failed earlier must not have used up worker slots: exactly n slots, n - 1 failures before
            scs.append({"loops": 1, "submitters": 1, "per": n, "body": "sleep", "sleep_ms": 100, "join": True, "join_ms": 3000, "max": n,
                        "bad_spawns": n - 1})
    reps = 2 if thorough else 1
    out = []
    for r in range(reps):
        for s in scs:
            t = dict(s)
            t["src"] = "configuration-grid"
            out.append(t)
    for i, s in enumerate(out):
        s["id"] = i + 1
        s["timeout_ms"] = 30000
    return out


def run_e2e(pid, tier, v, cov, wd, bindir):
    rng = random.Random(seed() * 7 + int(pid[1:]))
    scs = scenarios(pid, tier, rng)
    tpath = drive(bindir, "e2e", scs, wd, "ereset", "eend", timeout=3400, tag="_e2e")
    info = validate_full("Trace_E2E", tpath, timeout=3000)
    byid = {s["id"]: s for s in scs}
    mine = CLAUSES[pid] | DEATH
    other = {}
    for x in info["viols"]:
        sc = byid.get(x[2], {})
        rec = {"clause": x[1], "scenario_id": x[2], "trace_index": x[0], "detail": x[3] if len(x) > 3 else None,
               "loops": sc.get("loops"), "submitters": sc.get("submitters"), "body": sc.get("body"), "driver": "e2e", "scenario": sc}
        if x[1] in mine:
            # the one clause of this driver that reads a clock (an observer thread's record 500 ms into the scenario)
            if x[1] == "loop_stalled" and sc and not reproduces(bindir, "e2e", sc, wd, "ereset", "eend", "Trace_E2E", x[1]):
                v.note("timing clause %s of scenario %s did not reproduce in two further runs of the scenario alone: not reported" % (x[1], x[2]))
                continue
            v.add(rec)
        else:
            other[x[1]] = other.get(x[1], 0) + 1
    if other:
        v.note("e2e: clauses of other properties observed: %s" % other)
    cov["e2e_scenarios"] = len(scs)
    cov["e2e_trace_records"] = info["total"]
    cov["traces_validated_against_impl"] = cov.get("traces_validated_against_impl", 0) + len(scs)
    seg = first_segment(tpath, "ereset", "eend", want=lambda s: any(r.get("ev") == "task_run" for r in s), maxlen=100000)
    if seg:
        c1 = list(seg)
        dup = next(r for r in c1 if r.get("ev") == "task_run")
        c1.insert(c1.index(dup) + 1, dict(dup))
        c2 = [r for r in seg if not (r.get("ev") == "task_run" and r.get("task") == dup["task"])]
        cov["e2e_selftest"] = selftest_mutations("Trace_E2E", wd, {"duplicate_run": c1[:4000] + [seg[-2], seg[-1]] if len(c1) > 4002 else c1,
                                                                   "delete_run": c2})
    return scs


def run(pid, tier):
    v = Verdict(pid, tier)
    wd = workdir(pid)
    cov = {}
    bindir = build_harness()
    insts = [("MC_EventLoops.cfg", None), ("MC_EventLoops_non_owner_local_push.cfg", "NoneLost"),
             ("MC_EventLoops_results_per_pool.cfg", "JoinFinds")]
    mc_runs("EventLoops", insts, tier, cov)
    scs = run_e2e(pid, tier, v, cov, wd, bindir)
    if pid in ("C01", "C02"):
        # the single-pool part of the same property: CoPool.tla + pool driver (for C02 including the
        # join race forced through the pause point)
        mc_runs("CoPool", [("MC_CoPool.cfg", None), ("MC_CoPool_join_no_recheck.cfg", "any")], tier, cov)
        pscs = poolcheck.stage(pid, tier, v, cov, wd, bindir)
        scs = scs + pscs[-2:]
    cov["samples"] = scs[:2] + scs[-1:]
    cov["exhaustive"] = False
    cov["clauses_checked"] = sorted(CLAUSES[pid])
    return v.finish(cov, assumptions=["one EventLoops instance per process", "tasks are identified by unique names; every task body logs its own execution",
                                      "a submitter that does not return within 5 s is recorded as hung; the settle window is 30 polls of 10 ms without progress"])
