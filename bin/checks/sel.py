"""C20 (readiness wakes the waiting coroutine) and C21 (OS interest = outstanding waits).
Spec: Selector.tla, Trace_Selector.tla. Driver: sel (one process per scenario)."""
import json
import random

from vlib import *  # noqa

CLAUSES = {"C20": {"woken_by_timeout", "cross_wake", "wrong_token", "not_armed"}, "C21": {"interest_mismatch"}}
DEATH = {"panic", "abort", "hang"}
DEVS = ["records_global", "token_fold32", "resume_without_fd_check", "stale_token_on_rewait", "record_token_kept"]


def cfg(loops, ops, view):
    return """SPECIFICATION Spec
CONSTANTS
  NLoops = %d
  Fds = {1, 2}
  Halves = {1, 2}
  MaxOps = %d
  Deviations = {}
%sINVARIANTS DumpHist
CHECK_DEADLOCK FALSE
""" % (loops, ops, "VIEW view\n" if view else "")


def ready_scenarios(rng, thorough):
    scs = []
    reps = 3 if thorough else 1
    for rep in range(reps):
        for loops in (1, 2):
            j = lambda: rng.randint(0, 7)
            # one task receiving six times from one socket
            scs.append({"kind": "ready", "loops": loops, "slots": 1, "tasks": [[1] * 6], "starts": [0], "shape": "single",
                        "writes": [[20 + 25 * i + j(), 1] for i in range(6)]})
            # two tasks on two sockets, alternating writes
            scs.append({"kind": "ready", "loops": loops, "slots": 2, "tasks": [[1] * 5, [2] * 5], "starts": [0, 0], "shape": "two-sockets",
                        "writes": sorted([[20 + 30 * i + j(), 1] for i in range(5)] + [[35 + 30 * i + j(), 2] for i in range(5)])})
            # one task that moves from socket 1 to socket 2 while socket 1 keeps receiving data
            scs.append({"kind": "ready", "loops": loops, "slots": 2, "tasks": [[1, 2, 2, 2, 2]], "starts": [0], "shape": "moves-on",
                        "writes": [[20, 1], [60 + j(), 1], [100, 2], [125 + j(), 1], [150, 2], [175, 2], [200, 2]]})
            # a socket handed from one task to another
            scs.append({"kind": "ready", "loops": loops, "slots": 1, "tasks": [[1], [1, 1, 1, 1]], "starts": [0, 45], "shape": "handed-over",
                        "writes": [[20, 1]] + [[75 + 25 * i + j(), 1] for i in range(4)]})
            # a socket two tasks take turns on, one waiter at a time: A waits on socket 1 and gives up, B waits on it and gives
            # up (A sits on socket 3 meanwhile), A waits on it again while B has moved to socket 2; then socket 1 becomes ready, later socket 2
            # (steps are [socket, receive timeout ms])
            scs.append({"kind": "ready", "loops": loops, "slots": 3, "tasks": [[[1, 30], [3, 100], [1, 1000]], [[1, 30], [2, 1000]]], "starts": [0, 50],
                        "shape": "takes-turns", "writes": [[240 + j(), 1], [330 + j(), 2]]})
            # half-close: the socket has a write interest left behind by a send that gave up on its time limit and a read
            # interest; the hooked shutdown(SHUT_WR) removes the write interest - the read interest must stay armed
            # (one task does it all / a reader is blocked in recv while another task fills and half-closes; the first
            # "fill" takes what the socket has room for and returns, the second one finds it full and waits)
            scs.append({"kind": "ready", "loops": loops, "slots": 1, "shape": "half-close", "starts": [0],
                        "tasks": [[{"op": "fill", "fd": 1, "ms": 30}, {"op": "fill", "fd": 1, "ms": 30}, [1, 30], {"op": "shut_wr", "fd": 1}, [1, 1000], [1, 1000], [1, 1000], [1, 1000]]],
                        "writes": [[150 + j(), 1], [190 + j(), 1], [230 + j(), 1], [270 + j(), 1]]})
            scs.append({"kind": "ready", "loops": loops, "slots": 1, "shape": "half-close-reader-blocked", "starts": [0, 20],
                        "tasks": [[[1, 1000]] * 4, [{"op": "fill", "fd": 1, "ms": 30}, {"op": "fill", "fd": 1, "ms": 30}, {"op": "shut_wr", "fd": 1}]],
                        "writes": [[150 + j(), 1], [190 + j(), 1], [230 + j(), 1], [270 + j(), 1]]})
    for s in scs:
        s["src"] = "readiness-" + s["shape"]
    return scs


RACE_CFG = """SPECIFICATION Spec
CONSTANTS
  Ops <- %s
  InitRec = %s
  Deviations = {%s}
INVARIANTS InterestExact NoSpuriousFailure OutcomeExact
CHECK_DEADLOCK FALSE
"""
RACE_OPS = {"OpsAddAdd": ("addR", "addW"), "OpsDelAdd": ("delW", "addR"), "OpsDelDel": ("delR", "delW"), "OpsSame": ("addR", "addR")}
# the starting registrations from which the unlocked variant goes wrong (found by the sweep below; asserted there)
RACE_BAD = {("OpsAddAdd", ""), ("OpsDelAdd", "W"), ("OpsDelDel", "RW"), ("OpsSame", "")}


def race_stage(tier, cov):
    """SelectorRace.tla: two operations on one descriptor's interest at the same time, every pair of kinds from every
    starting registration - the intended design (one critical section) must hold, the unlocked variant must be refuted
    exactly where the sweep says it goes wrong. Returns the scenarios for the real code."""
    runs = cov.setdefault("mc_runs", [])
    scs = []
    for ops, (a, b) in sorted(RACE_OPS.items()):
        for init in ("", "R", "W", "RW"):
            iset = "{%s}" % ", ".join('"%s"' % c for c in init)
            for dev in ("", "unlocked"):
                name = "gen_race_%s_%s_%s_%d.cfg" % (ops, init or "none", dev or "design", os.getpid())
                path = os.path.join(SPEC, name)
                with open(path, "w") as f:
                    f.write(RACE_CFG % (ops, iset, ('"%s"' % dev) if dev else ""))
                try:
                    r = tlc("MC_SelectorRace", name, workers=1, timeout=300)
                finally:
                    os.remove(path)
                expect = "any" if (dev and (ops, init) in RACE_BAD) else None
                require_mc_ok(r, "%s from {%s}%s" % (ops, init, " (unlocked)" if dev else ""), expect_violation=expect)
                if not dev:
                    cov["states"] = cov.get("states", 0) + r.distinct
                    cov["transitions"] = cov.get("transitions", 0) + r.generated
                runs.append({"module": "SelectorRace", "cfg": "%s from {%s} %s" % (ops, init, dev or "design"), "distinct": r.distinct,
                             "generated": r.generated, "depth": r.depth, "expected_violation": (r.violated if expect else None), "wall_s": round(r.wall, 1)})
            # both orders of the pair on the real code
            for x, y in ((a, b), (b, a)):
                scs.append({"kind": "race", "loops": 1, "a": x, "b": y, "init": list(init), "src": "race-%s" % ops, "shape": "race"})
    return scs


def run(pid, tier):
    v = Verdict(pid, tier)
    wd = workdir(pid)
    cov = {}
    bindir = build_harness()
    mc_runs("Selector", [("MC_Selector.cfg", None)] + [("MC_Selector_%s.cfg" % d, "any") for d in DEVS], tier, cov)
    thorough = tier == "thorough"
    rng = random.Random(seed() * 3 + int(pid[1:]))
    scs = []
    if pid == "C21":
        for loops in (1, 2):
            hs, _ = tlc_replays("Selector", cfg(loops, 5 if thorough else 4, True), "fin%d" % loops)
            hs = [[o for o in h if o["op"] not in ("ready", "timeout")] for h in hs]
            seen, uniq = set(), []
            for h in hs:
                k = json.dumps(h, sort_keys=True)
                if k not in seen and h:
                    seen.add(k)
                    uniq.append(h)
            cov["tlc_final_state_histories"] = cov.get("tlc_final_state_histories", 0) + len(uniq)
            cap = 2000 if thorough else 90
            if len(uniq) > cap:
                uniq = rng.sample(uniq, cap)
            scs += [{"kind": "interest", "loops": loops, "hist": h, "src": "tlc-final-states"} for h in uniq]
            hs, _ = tlc_replays("Selector", cfg(loops, 14, False), "sim%d" % loops, simulate=(200 if thorough else 15), depth=15, sd=seed())
            hs = [[o for o in h if o["op"] not in ("ready", "timeout")] for h in hs]
            cov["tlc_simulated_histories"] = cov.get("tlc_simulated_histories", 0) + len(hs)
            scs += [{"kind": "interest", "loops": loops, "hist": h, "src": "tlc-simulate"} for h in hs if h]
        scs += race_stage(tier, cov) * (3 if thorough else 1)
    else:
        scs = ready_scenarios(rng, thorough)
    for i, s in enumerate(scs):
        s["id"] = i + 1
    tpath = drive(bindir, "sel", scs, wd, "lreset", "lend", timeout=3400)
    info = validate_full("Trace_Selector", tpath)
    byid = {s["id"]: s for s in scs}
    # a scenario whose pinned agents could not be scheduled (all children pin their loop threads to the
    # same CPUs) says nothing about the property: run those again, alone
    starved = sorted({x[2] for x in info["viols"] if x[1] == "hang" and "agent did not execute" in str(x[3] if len(x) > 3 else "")})
    if starved:
        redo = [dict(byid[i]) for i in starved]
        for j, s in enumerate(redo):
            s["orig"] = s["id"]
            s["id"] = j + 1
        t2 = drive(bindir, "sel", redo, wd, "lreset", "lend", timeout=3400, tag="_redo")
        inf2 = validate_full("Trace_Selector", t2)
        info["viols"] = [x for x in info["viols"] if x[2] not in starved] + \
                        [[x[0], x[1], redo[x[2] - 1]["orig"]] + list(x[3:]) for x in inf2["viols"]]
        v.note("%d scenario(s) were run again because their agents were not scheduled in time" % len(starved))
    mine = CLAUSES[pid] | DEATH
    for x in info["viols"]:
        sc = byid.get(x[2], {})
        rec = {"clause": x[1], "scenario_id": x[2], "trace_index": x[0], "detail": x[3] if len(x) > 3 else None, "loops": sc.get("loops"),
               "shape": sc.get("shape", ""), "src": sc.get("src"), "driver": "sel", "scenario": sc}
        if pid == "C21":
            ops = sc.get("hist", [])
            # is the mismatching descriptor used on more than one loop in this history?
            loops_per_fd = {}
            for o in ops:
                if o["op"] in ("wait", "del"):
                    loops_per_fd.setdefault(o["fd"], set()).add(o["loop"])
            rec["multi_loop_fd"] = any(len(s) > 1 for s in loops_per_fd.values())
        if x[1] in mine:
            v.add(rec)
    if pid == "C21":
        seg = first_segment(tpath, "lreset", "lend", want=lambda s: any(r.get("ev") == "snap" and any(e["r"] or e["w"] for e in r["regs"]) for r in s))
        if seg:
            c1 = [json.loads(json.dumps(r)) for r in seg]
            for r in c1:
                if r.get("ev") == "snap" and any(e["r"] or e["w"] for e in r["regs"]):
                    for e in r["regs"]:
                        e["r"] = not e["r"]
                    break
            c2 = [r for r in seg if r.get("ev") != "op"]
            cov["selftest"] = selftest_mutations("Trace_Selector", wd, {"corrupt_snapshot": c1, "delete_ops": c2})
    else:
        seg = first_segment(tpath, "lreset", "lend", want=lambda s: sum(1 for r in s if r.get("ev") == "wake" and r.get("how") == "callback") >= 2)
        if seg:
            c1 = [dict(r) for r in seg]
            for r in c1:
                if r.get("ev") == "wake":
                    r["how"] = "timeout"
            c2 = [r for r in seg if r.get("ev") != "write"]
            cov["selftest"] = selftest_mutations("Trace_Selector", wd, {"corrupt_wakes": c1, "delete_writes": c2})
    cov["traces_validated_against_impl"] = len(scs)
    cov["trace_records"] = info["total"]
    cov["samples"] = [scs[0], scs[-1]]
    cov["clauses_checked"] = sorted(CLAUSES[pid])
    cov["exhaustive"] = False
    return v.finish(cov, assumptions=["/proc/self/fdinfo/<epfd> is the ground truth for OS interest; the i-th epoll descriptor of the process belongs to loop i",
                                      "a wake-up is attributed through the state-change hook (Syscall(.., Callback) vs Syscall(.., Timeout))",
                                      "woken_by_timeout is reported only for a task woken >= 3 times with data pending and never once by the event"])
