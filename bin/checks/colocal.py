"""C25: coroutine-local storage. Spec: CoLocal.tla, Trace_CoLocal.tla. Driver: colocal."""
import random

from vlib import *  # noqa

CLAUSES = {"put_ret", "get_ret", "remove_ret", "premature_drop", "double_drop", "leak", "plain_leak", "panic", "abort", "hang"}


def cfg(nco, keys, maxops, view):
    return """SPECIFICATION Spec
CONSTANTS
  NCo = %d
  Keys = {%s}
  MaxOps = %d
  Deviations = {}
%sINVARIANTS DumpHist
CHECK_DEADLOCK FALSE
""" % (nco, ", ".join('"%s"' % k for k in keys), maxops, "VIEW view\n" if view else "")


def run(pid, tier):
    v = Verdict(pid, tier)
    wd = workdir(pid)
    cov = {}
    bindir = build_harness()
    mc_runs("CoLocal", [("MC_CoLocal.cfg", None), ("MC_CoLocal_nodrop.cfg", "Accounted"),
                        ("MC_CoLocal_skip_when_panicking.cfg", "Accounted")], tier, cov)
    thorough = tier == "thorough"
    scs = []
    hs, _ = tlc_replays("CoLocal", cfg(2, ["k1", "k2"], 4 if thorough else 3, False), "ex")
    cov["tlc_exhaustive_histories"] = len(hs)
    scs += [{"nco": 2, "hist": h, "src": "tlc-exhaustive"} for h in hs]
    hs, _ = tlc_replays("CoLocal", cfg(2, ["k1", "k2"], 7 if thorough else 6, True), "fin")
    cov["tlc_final_state_histories"] = len(hs)
    scs += [{"nco": 2, "hist": h, "src": "tlc-final-states"} for h in hs]
    for i, (nco, keys, d) in enumerate([(3, ["k1", "k2", "k3"], 30), (2, ["k1"], 20), (3, ["k1", "k2"], 60)]):
        hs, _ = tlc_replays("CoLocal", cfg(nco, keys, d, False), "sim%d" % i, simulate=(300 if thorough else 60),
                            depth=d + 1, sd=seed() + i)
        cov["tlc_simulated_histories"] = cov.get("tlc_simulated_histories", 0) + len(hs)
        scs += [{"nco": nco, "hist": h, "src": "tlc-simulate"} for h in hs]
    for i, s in enumerate(scs):
        s["id"] = i + 1
    tpath = drive(bindir, "colocal", scs, wd, "lreset", "lend")
    info = validate_full("Trace_CoLocal", tpath)
    byid = {s["id"]: s for s in scs}
    for x in info["viols"]:
        sc = byid.get(x[2], {})
        rec = {"clause": x[1], "scenario_id": x[2], "trace_index": x[0], "detail": x[3] if len(x) > 3 else None,
               "src": sc.get("src"), "driver": "colocal", "scenario": sc}
        if x[1] in CLAUSES:
            v.add(rec)
        else:
            v.note("unexpected clause %s" % x[1])
    seg = first_segment(tpath, "lreset", "lend", want=lambda s: any(r.get("ev") == "put" for r in s) and
                        any(r.get("ev") == "dropped" for r in s))
    if seg:
        c1 = [dict(r) for r in seg]
        for r in c1:
            if r.get("ev") == "put":
                r["ret"] = {"id": 77, "tag": 0}
                break
        c2 = [dict(r) for r in seg]
        for i, r in enumerate(c2):
            if r.get("ev") == "dropped":
                del c2[i]
                break
        cov["selftest"] = selftest_mutations("Trace_CoLocal", wd, {"corrupt": c1, "delete": c2})
    cov["traces_validated_against_impl"] = len(scs)
    cov["trace_records"] = info["total"]
    cov["samples"] = [scs[0], scs[len(scs) // 2], scs[-1]]
    cov["clauses_checked"] = sorted(CLAUSES)
    cov["exhaustive"] = False
    return v.finish(cov, assumptions=["values are accessed with the type they were stored with",
                                      "the harness keeps values returned by put/remove alive until the scenario ends"])
