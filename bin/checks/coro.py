"""C07, C08, C09: coroutine lifecycle. Spec: Coroutine.tla (design), Trace_Coroutine.tla
(observable layer). Driver: harness coro."""
import json
import os
import random

from vlib import *  # noqa

CLAUSES = {
    "C07": {"bad_old", "edge", "left_terminal", "callback", "callback_missing", "ran_after_terminal",
            "result_state", "unreported_change", "refused_but_changed", "refused_legal",
            "change_outside_resume", "body_outside_resume", "illegal_accepted", "spurious_error",
            "current_leak", "thread_not_normal",
            # "each change is reported ... with the correct old and new state": a plain suspend reported as Cancelled, or as
            # Suspend with somebody else's wake-up time, is a wrong new state as well as a C09 violation
            "foreign_timestamp", "foreign_cancel"},
    "C08": {"value_in", "value_out", "panic_message", "return_lost", "panic_lost", "unwound", "panic", "hang", "abort",
            "thread_not_normal", "values_corrupted"},
    "C09": {"foreign_timestamp", "foreign_cancel", "cancel_lost"},
}
EXTRA = {"suspender_leak", "fault_message", "fault_not_error"}
CALLBACKS = ["on_state_changed", "on_ready", "on_running", "on_suspend", "on_syscall", "on_cancel",
             "on_complete", "on_error"]


def gen_cfg(k, maxsteps, maxres, view=True):
    return """SPECIFICATION Spec
CONSTANTS
  K = %d
  MaxSteps = %d
  MaxResumes = %d
  Deviations = {}
%sINVARIANTS DumpHist
CHECK_DEADLOCK FALSE
""" % (k, maxsteps, maxres, "VIEW view\n" if view else "")


def tlc_hists(name, cfg_text, simulate=None, depth=None, sd=None, workers=4, timeout=600):
    cfg = "gen_co_%s_%d.cfg" % (name, os.getpid())
    path = os.path.join(SPEC, cfg)
    with open(path, "w") as f:
        f.write(cfg_text)
    try:
        r = tlc("Coroutine", cfg, workers=(1 if simulate else workers), timeout=timeout, simulate=simulate,
                depth=depth, seed_=sd, metaname="gen_co_%s_%d" % (name, os.getpid()))
    finally:
        os.remove(path)
    if r.timeout:
        raise ToolError("scenario generation timed out (%s)" % name)
    return [json.loads(p[0]) for p in prints_tagged(r, "REPLAY")], r


def long_program(rng, k, nsusp):
    """seeded long programs (beyond the model's bound): many suspend points, then return/panic"""
    hist = []
    v = 1
    alive = {c: True for c in range(1, k + 1)}
    in_sys = {c: False for c in range(1, k + 1)}
    started = set()
    for _ in range(nsusp * k + k):
        live = [c for c in alive if alive[c]]
        if not live:
            break
        c = rng.choice(live)
        hist.append({"a": "resume", "c": c, "arg": v})
        v += 1
        in_sys[c] = False      # a coroutine that yielded in Syscall(Executing) is Running again once resumed
        n = rng.randint(0, 2)
        for _ in range(n):
            x = rng.random()
            if not in_sys[c] and x < 0.5:
                hist.append({"a": "sys_enter", "c": c, "n": rng.choice(["sleep", "recv"])})
                in_sys[c] = True
            elif in_sys[c] and x < 0.4:
                hist.append({"a": "sys_exit", "c": c})
                in_sys[c] = False
            elif in_sys[c] and x < 0.6:
                hist.append({"a": "sys_other", "c": c})
        x = rng.random()
        if in_sys[c]:
            # yields inside a syscall state keep the state; only Executing can be resumed again
            if x < 0.5:
                hist.append({"a": "delay", "c": c, "v": v, "ts": rng.choice([1, 2, 3])})
            else:
                hist.append({"a": "suspend", "c": c, "v": v})
            v += 1
        elif x < 0.6:
            hist.append({"a": "suspend", "c": c, "v": v})
            v += 1
        elif x < 0.75:
            hist.append({"a": "delay", "c": c, "v": v, "ts": 1})
            v += 1
        elif x < 0.83:
            hist.append({"a": "delay", "c": c, "v": v, "ts": rng.choice([2, 3])})
            v += 1
            alive[c] = False   # not due any more: further resumes are refused (still legal to try)
            hist.append({"a": "resume", "c": c, "arg": v})
            v += 1
        elif x < 0.9:
            hist.append({"a": "return", "c": c, "r": v})
            v += 1
            alive[c] = False
            hist.append({"a": "resume", "c": c, "arg": v})
            v += 1
        elif x < 0.97:
            hist.append({"a": "panic", "c": c, "m": v, "kind": rng.choice(["str", "string"])})
            v += 1
            alive[c] = False
            hist.append({"a": "resume", "c": c, "arg": v})
            v += 1
        else:
            hist.append({"a": "cancel", "c": c})
            alive[c] = False
            hist.append({"a": "resume", "c": c, "arg": v})
            v += 1
    return hist


def build_scenarios(pid, tier, cov):
    rng = random.Random(seed() * 104729 + int(pid[1:]))
    thorough = tier == "thorough"
    scs = []
    # exhaustive: one behaviour per reachable final state of the bounded design model
    plan = [(1, 4, 5), (2, 2, 4)] if not thorough else [(1, 5, 6), (2, 3, 5), (3, 2, 4)]
    if pid == "C09":
        plan = [(2, 3, 4), (3, 2, 4)] if not thorough else [(2, 3, 6), (3, 2, 5), (3, 3, 4)]
    cap = 4000 if not thorough else 60000
    for (k, ms, mr) in plan:
        hs, r = tlc_hists("ex", gen_cfg(k, ms, mr))
        cov["tlc_exhaustive_behaviours"] = cov.get("tlc_exhaustive_behaviours", 0) + len(hs)
        if len(hs) > cap:
            hs = rng.sample(hs, cap)
        for h in hs:
            scs.append({"k": k, "hist": h, "src": "tlc-final-states"})
    # random walks (longer programs)
    for i, (k, ms, mr) in enumerate([(2, 6, 10), (3, 5, 12), (1, 10, 12)]):
        hs, r = tlc_hists("sim%d" % i, gen_cfg(k, ms, mr, view=False), simulate=(400 if thorough else 80),
                          depth=60, sd=seed() + i)
        cov["tlc_simulated_behaviours"] = cov.get("tlc_simulated_behaviours", 0) + len(hs)
        for h in hs:
            scs.append({"k": k, "hist": h, "src": "tlc-simulate"})
    # seeded long programs, some with a panicking second listener
    for i in range(300 if thorough else 60):
        k = rng.choice([1, 2, 3])
        sc = {"k": k, "hist": long_program(rng, k, rng.choice([3, 8, 12])), "src": "seeded-long"}
        scs.append(sc)
    # listener panics: re-run a sample with a second listener that panics in one callback kind
    base = rng.sample(scs, min(len(scs), 400 if thorough else 120))
    for i, s in enumerate(base):
        t = dict(s)
        t["lp"] = CALLBACKS[i % len(CALLBACKS)]
        t["src"] = s["src"] + "+listener-panic"
        scs.append(t)
    # panic payload kinds: literal, formatted, long formatted (1000 bytes) and long with multi-byte characters
    kinds = ["str", "string", "string_long", "string_utf8"]
    for s in scs:
        for st in s["hist"]:
            if st.get("a") == "panic" and st.get("kind") in (None, "str", "string"):
                st["kind"] = rng.choice(kinds)
    for i, s in enumerate(scs):
        s["id"] = i + 1
        # the resuming thread must keep working after bodies that panicked / trapped: hooked 1 ms sleep
        s["post_sleep"] = (i % 4 == 0)
    return scs


def run_driver(bindir, scs, wd):
    spath = os.path.join(wd, "scenarios.jsonl")
    tpath = os.path.join(wd, "trace.ndjson")
    with open(spath, "w") as f:
        for s in scs:
            f.write(json.dumps(s, separators=(",", ":")) + "\n")
    if os.path.exists(tpath):
        os.remove(tpath)
    start = 0
    restarts = 0
    while start < len(scs):
        rc, out, err = run_bin(bindir, "coro", [spath, tpath, "--from", start, "--append"], timeout=1200)
        if rc == 0:
            break
        recs = read_ndjson(tpath)
        last = max((i for i, r in enumerate(recs) if r.get("ev") == "creset"), default=None)
        if last is None:
            raise ToolError("driver coro failed before the first scenario: rc=%s %s" % (rc, err[-500:]))
        sid = recs[last]["scenario"]
        if rc != 3:
            with open(tpath, "a") as f:
                f.write(json.dumps({"ev": "died", "how": "abort", "msg": "driver exit %s: %s" % (rc, err.strip()[-200:]),
                                    "scenario": sid, "step": 0, "seq": 0, "th": 999}) + "\n")
        with open(tpath, "a") as f:
            f.write(json.dumps({"ev": "cend", "scenario": sid, "seq": 0, "th": 999}) + "\n")
        start = sid
        restarts += 1
        if restarts > 60:
            # every death is already in the trace as data; do not spend the time budget on hundreds more
            log("NOTE driver coro died in more than 60 scenarios: the remaining %d scenarios are skipped" % (len(scs) - start))
            break
    return tpath


def self_test(tpath, wd):
    recs = read_ndjson(tpath)
    seg = []
    for r in recs:
        seg.append(r)
        if r.get("ev") == "cend":
            if any(x.get("ev") == "chg" for x in seg) and any(x.get("ev") == "resume_e" and x.get("ok") for x in seg):
                break
            seg = []
    if not seg:
        return None
    c1 = [dict(x) for x in seg]
    for x in c1:
        if x.get("ev") == "resume_e" and x.get("ok") and x["st"].get("k") == "Suspend":
            x["st"] = dict(x["st"])
            x["st"]["ts"] = 2 if x["st"]["ts"] != 2 else 1
            break
    else:
        for x in c1:
            if x.get("ev") == "resume_e" and x.get("ok"):
                x["st"] = {"k": "Ready"}
                break
    c2 = [dict(x) for x in seg]
    for i, x in enumerate(c2):
        if x.get("ev") == "chg":
            del c2[i]
            break
    res = {}
    for name, c in (("corrupt", c1), ("delete", c2)):
        p = os.path.join(wd, "selftest_%s.ndjson" % name)
        write_ndjson(p, c)
        info = validate_trace("Trace_Coroutine", "Trace_Coroutine.cfg", p, timeout=120)
        res[name] = len(info["viols"])
        if not info["viols"]:
            raise ToolError("binding self-test failed: %s trace accepted" % name)
    return res


def mc_stage(tier, cov):
    w = 8 if tier == "thorough" else 4
    runs = []
    states = trans = 0
    insts = [("MC_Coroutine.cfg", None), ("MC_Coroutine_leak.cfg", "NoLeak"), ("MC_Coroutine_cur.cfg", "CurrentDiscipline")]
    if tier == "thorough":
        insts.append(("MC_Coroutine_k3.cfg", None))
    for cfg, expect in insts:
        r = tlc("Coroutine", cfg, workers=w, timeout=1800)
        require_mc_ok(r, cfg, expect_violation=expect)
        if expect is None:
            states += r.distinct
            trans += r.generated
        runs.append({"cfg": cfg, "distinct": r.distinct, "generated": r.generated, "depth": r.depth,
                     "expected_violation": expect, "wall_s": round(r.wall, 1)})
    cov["states"], cov["transitions"], cov["mc_runs"] = states, trans, runs


def typed_stage(v, wd, tier, cov):
    """C08 with the `preemptive` feature: coroutines whose resume argument or yield value carries data compute for several
    time slices; the preemption handler - which treats the current coroutine as one of type <(), ()> - must leave them alone,
    so that the resumer sees exactly what the body yielded and the body exactly what was passed in (driver preempt, Trace_Monitor)."""
    if not os.path.exists(os.path.join(HARNESS, "features_preemptive")):
        return
    pb = build_harness("preemptive", bins=["preempt"])
    scs = []
    for rep in range(3 if tier == "thorough" else 1):
        for kind in ("yield_only", "param_only"):
            scs.append({"typed": kind, "threads": 0, "timeout_ms": 15000, "src": "typed-coroutine-over-several-slices"})
    for i, s in enumerate(scs):
        s["id"] = i + 1
    tpath = drive(pb, "preempt", scs, wd, "mreset", "mend", timeout=600, tag="_typed")
    sanitize_ndjson(tpath, "mend")
    info = validate_full("Trace_Monitor", tpath)
    for x in info["viols"]:
        if x[1] in ("values_corrupted", "abort", "hang", "panic"):
            v.add({"clause": x[1], "scenario_id": x[2], "trace_index": x[0], "detail": x[3] if len(x) > 3 else None, "driver": "preempt",
                   "scenario": scs[x[2] - 1] if 0 < x[2] <= len(scs) else None})
    cov["typed_scenarios"] = len(scs)
    cov["traces_validated_against_impl"] = cov.get("traces_validated_against_impl", 0) + len(scs)


def run(pid, tier):
    v = Verdict(pid, tier)
    wd = workdir(pid)
    cov = {}
    bindir = build_harness()
    if pid == "C08":
        typed_stage(v, wd, tier, cov)
    mc_stage(tier, cov)
    scs = build_scenarios(pid, tier, cov)
    tpath = run_driver(bindir, scs, wd)
    info = validate_auto("Trace_Coroutine", "Trace_Coroutine.cfg", tpath, timeout=1800)
    if info["consumed"] != info["total"]:
        raise ToolError("trace not fully consumed (%s of %s)" % (info["consumed"], info["total"]))
    byid = {s["id"]: s for s in scs}
    extra = 0
    for x in info["viols"]:
        idx, clause, scen = x[0], x[1], x[2]
        sc = byid.get(scen, {})
        recd = {"clause": clause, "scenario_id": scen, "trace_index": idx, "detail": x[3] if len(x) > 3 else None,
                "src": sc.get("src"), "lp": sc.get("lp"), "driver": "coro", "scenario": sc}
        if clause in CLAUSES[pid]:
            v.add(recd)
        elif clause in EXTRA:
            extra += 1
        else:
            v.note("clause %s (another property) in scenario %s" % (clause, scen))
    if extra:
        v.note("%d record(s) of clauses owned by other checks (suspender_leak / fault clauses: C24)" % extra)
    cov["traces_validated_against_impl"] = cov.get("traces_validated_against_impl", 0) + len(scs)
    cov["trace_records"] = info["total"]
    srcs = {}
    for s in scs:
        srcs[s["src"]] = srcs.get(s["src"], 0) + 1
    cov["scenario_sources"] = srcs
    cov["selftest"] = self_test(tpath, wd)
    cov["samples"] = [scs[0], scs[len(scs) // 2], scs[-1]]
    cov["clauses_checked"] = sorted(CLAUSES[pid])
    cov["exhaustive"] = False
    return v.finish(cov, assumptions=[
        "corosensei switches stacks correctly", "the recording listener is notified through the public Listener API",
        "time classes: 0 plain, 1 past, 2 now+1h, 3 u64::MAX"])
