"""C28: time and slicing helpers. Spec: TimeOps.tla, TimeHelpers.tla, Trace_TimeHelpers.tla. Driver: helpers."""
from vlib import *  # noqa

CLAUSES = {"deadline_wrap", "deadline_early_sat", "deadline_value", "slices", "limit_zero", "limit_value",
           "panic", "abort", "hang"}

GEN = """SPECIFICATION Spec
CONSTANTS
  W = 4
  NsPerSec = 4
  NsPerUsec = 2
  AllowZeroSlice = FALSE
INVARIANTS DumpCase
CHECK_DEADLOCK FALSE
"""


def run(pid, tier):
    v = Verdict(pid, tier)
    wd = workdir(pid)
    cov = {}
    bindir = build_harness()
    mc_runs("TimeHelpers", [("MC_TimeHelpers.cfg", None), ("MC_TimeHelpers_zero.cfg", "SlicesBounded")], tier, cov)
    cases_tlc, _ = tlc_replays("TimeHelpers", GEN, "all")
    cov["tlc_cases"] = len(cases_tlc)
    cases = []
    for c in cases_tlc:
        if c["fn"] == "limit":
            continue   # word-size-4 model only; the real function is reached through a socket (below)
        cases.append({"fn": c["fn"], "a": c["a"], "b": c["b"], "fam": "k64"})
        if c["fn"] == "slices":
            cases.append({"fn": "slices", "a": c["a"], "b": c["b"], "fam": "secs"})
        if c["fn"] == "deadline" and c["a"] > 15:
            cases.append({"fn": "deadline", "a": c["a"], "b": c["b"], "fam": "secs"})
    secs = [0, 1, 2, 59, 3600, 2 ** 31 - 1, 2 ** 31, 10 ** 10, 18446744073, 18446744074, 2 ** 62, 2 ** 63 - 1]
    for s in secs:
        for us in (0, 1, 999999):
            for recv in (True, False):
                cases.append({"fn": "limit", "a": 0, "b": 0, "sec": s, "usec": us, "recv": recv})
    n = 4 if tier == "thorough" else 1
    scs = [{"id": i + 1, "cases": cases, "src": "tlc-all-values-w4 + boundary vectors"} for i in range(n)]
    tpath = drive(bindir, "helpers", scs, wd, "hreset", "hend")
    info = validate_full("Trace_TimeHelpers", tpath)
    for x in info["viols"]:
        rec = {"clause": x[1], "scenario_id": x[2], "trace_index": x[0], "detail": x[3] if len(x) > 3 else None, "driver": "helpers"}
        if x[1] in CLAUSES:
            v.add(rec)
    recs = read_ndjson(tpath)
    sl = [r for r in recs if r.get("ev") == "slices" and r.get("pieces")][:5]
    dl = [r for r in recs if r.get("ev") == "deadline" and r.get("a", 0) > 15][:5]
    c1 = [dict(recs[0])] + [dict(r) for r in sl] + [dict(recs[-1])]
    for r in c1:
        if r.get("ev") == "slices" and r.get("pieces"):
            r["pieces"] = r["pieces"][:-1]
            break
    c2 = [dict(recs[0])] + [dict(r) for r in dl] + [dict(recs[-1])]
    for r in c2:
        if r.get("ev") == "deadline" and r.get("a", 0) > 15:
            r["sat"] = False
            break
    cov["selftest"] = selftest_mutations("Trace_TimeHelpers", wd, {"corrupt_slices": c1, "corrupt_deadline": c2})
    kinds = {}
    for r in recs:
        kinds[r.get("ev")] = kinds.get(r.get("ev"), 0) + 1
    cov["records_by_kind"] = kinds
    cov["traces_validated_against_impl"] = len(scs)
    cov["trace_records"] = info["total"]
    cov["samples"] = cases[:3] + cases[-2:]
    cov["exhaustive"] = True
    cov["exhaustive_scope"] = "every (duration, now) / (total, slice) pair of the 4-bit word model, replayed at x*0x1111111111111111 ns and at x*(u64::MAX/15) s"
    return v.finish(cov, assumptions=["x -> x*K64 commutes with saturating add / sub / compare because 15*K64 = u64::MAX",
                                      "get_time_limit is reached through recv_time_limit/send_time_limit on a fresh socket; the kernel's getsockopt value is the input",
                                      "the big-integer mirror of the one-line limit formula in the driver is trusted"])
