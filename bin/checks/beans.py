"""C26: named singletons. Spec: Beans.tla, Trace_Beans.tla. Driver: beans."""
import random

from vlib import *  # noqa

CLAUSES = {"split", "panic", "abort", "hang"}

GEN = """SPECIFICATION Spec
CONSTANTS
  Threads = {%s}
  Deviations = {"bean_check_then_insert", "factory_check_then_store"}
INVARIANTS DumpHist
CHECK_DEADLOCK FALSE
"""


def run(pid, tier):
    v = Verdict(pid, tier)
    wd = workdir(pid)
    cov = {}
    bindir = build_harness()
    mc_runs("Beans", [("MC_Beans.cfg", None), ("MC_Beans_bdev.cfg", "Agree"), ("MC_Beans_fdev.cfg", "Agree")], tier, cov)
    thorough = tier == "thorough"
    scs = []
    # every interleaving of the (deviating, i.e. most permissive) design model is imposed on the real code
    for n in ([2, 3] if thorough else [2, 3]):
        hs, _ = tlc_replays("Beans", GEN % ", ".join(str(i) for i in range(1, n + 1)), "ex%d" % n)
        seen = set()
        for h in hs:
            key = tuple((x["th"], x["a"]) for x in h if x["a"] in ("L1", "L3"))
            if key in seen:
                continue
            seen.add(key)
            scs.append({"mode": "forced", "threads": n, "hist": h, "src": "tlc-interleavings"})
        cov["tlc_interleavings"] = cov.get("tlc_interleavings", 0) + len(seen)
    rng = random.Random(seed())
    for i in range(400 if thorough else 120):
        scs.append({"mode": "stress", "threads": rng.choice([2, 3, 4, 8]), "src": "stress"})
    for i in range(150 if thorough else 40):
        scs.append({"mode": "factory", "threads": rng.choice([2, 3, 4]), "src": "factory-first-use"})
    for i, s in enumerate(scs):
        s["id"] = i + 1
    tpath = drive(bindir, "beans", scs, wd, "breset", "bend")
    info = validate_full("Trace_Beans", tpath)
    byid = {s["id"]: s for s in scs}
    for x in info["viols"]:
        sc = byid.get(x[2], {})
        rec = {"clause": x[1], "scenario_id": x[2], "trace_index": x[0], "detail": x[3] if len(x) > 3 else None,
               "mode": sc.get("mode"), "driver": "beans", "scenario": sc}
        if x[1] in CLAUSES:
            v.add(rec)
    recs = read_ndjson(tpath)
    sched = [r for r in recs if r.get("ev") == "sched"]
    cov["forced_schedules"] = len(sched)
    cov["forced_schedules_realised"] = sum(1 for r in sched if r.get("realised"))
    seg = first_segment(tpath, "breset", "bend", want=lambda s: any(r.get("ev") == "lookup" for r in s))
    if seg:
        c1 = [dict(r) for r in seg]
        for r in c1:
            if r.get("ev") == "lookup":
                r["obj"] = 9
                break
        c2 = [r for r in seg if r.get("ev") != "final"]
        cov["selftest"] = selftest_mutations("Trace_Beans", wd, {"corrupt": c1, "delete": c2})
    cov["traces_validated_against_impl"] = len(scs)
    cov["trace_records"] = info["total"]
    cov["samples"] = [scs[0], scs[-1]]
    cov["exhaustive"] = False
    return v.finish(cov, assumptions=["the pause point sits between the miss and the insert (hook commit)",
                                      "a schedule that cannot be imposed within 400 ms is counted as unrealised, not as a violation"])
