"""C19: socket timeout options. Spec: SockOpt.tla, Trace_SockOpt.tla. Driver: sockopt."""
import random

from vlib import *  # noqa

CLAUSES = {"stale_limit", "panic", "abort", "hang"}


def cfg(ops, view, fds="{1, 2}"):
    return """SPECIFICATION Spec
CONSTANTS
  Fds = %s
  Tvs = {0, 1, 2}
  MaxOps = %d
  Deviations = {}
%sINVARIANTS DumpHist
CHECK_DEADLOCK FALSE
""" % (fds, ops, "VIEW view\n" if view else "")


def run(pid, tier):
    v = Verdict(pid, tier)
    wd = workdir(pid)
    cov = {}
    bindir = build_harness()
    mc_runs("SockOpt", [("MC_SockOpt.cfg", None), ("MC_SockOpt_setopt_assert.cfg", "NoViolation"),
                        ("MC_SockOpt_close_keeps_cache.cfg", "CacheSound"), ("MC_SockOpt_cache_per_number.cfg", "CacheSound")], tier, cov)
    thorough = tier == "thorough"
    rng = random.Random(seed())
    scs = []
    hs, _ = tlc_replays("SockOpt", cfg(5 if thorough else 4, False), "ex")
    cov["tlc_exhaustive_histories"] = len(hs)
    cap = 20000 if thorough else 900
    if len(hs) > cap:
        hs = rng.sample(hs, cap)
    scs += [{"hist": h, "src": "tlc-exhaustive"} for h in hs]
    hs, _ = tlc_replays("SockOpt", cfg(8, True), "fin")
    cov["tlc_final_state_histories"] = len(hs)
    scs += [{"hist": h, "src": "tlc-final-states"} for h in hs]
    hs, _ = tlc_replays("SockOpt", cfg(24, False), "sim", simulate=(400 if thorough else 80), depth=25, sd=seed())
    cov["tlc_simulated_histories"] = len(hs)
    scs += [{"hist": h, "src": "tlc-simulate"} for h in hs]
    # three descriptor numbers: a socket with two numbers next to another socket, numbers and identities reused
    hs, _ = tlc_replays("SockOpt", cfg(24, False, "{1, 2, 3}"), "sim3", simulate=(400 if thorough else 80), depth=25, sd=seed() + 1)
    cov["tlc_simulated_histories"] += len(hs)
    scs += [{"hist": h, "src": "tlc-simulate-3"} for h in hs]
    for i, s in enumerate(scs):
        s["id"] = i + 1
    tpath = drive(bindir, "sockopt", scs, wd, "oreset", "oend", timeout=3000)
    info = validate_full("Trace_SockOpt", tpath)
    byid = {s["id"]: s for s in scs}
    for x in info["viols"]:
        sc = byid.get(x[2], {})
        ops = [h["op"] for h in sc.get("hist", [])]
        rec = {"clause": x[1], "scenario_id": x[2], "trace_index": x[0], "detail": x[3] if len(x) > 3 else None,
               "ops": " ".join(ops), "driver": "sockopt", "scenario": sc}
        if x[1] in CLAUSES:
            v.add(rec)
    seg = first_segment(tpath, "oreset", "oend", want=lambda s: any(r.get("ev") == "limit" for r in s))
    if seg:
        c1 = [dict(r) for r in seg]
        for r in c1:
            if r.get("ev") == "limit":
                r["applied"] = 77
                break
        c2 = [dict(r) for r in seg]
        for r in c2:
            if r.get("ev") == "limit":
                r["kernel"] = r["kernel"] + 5
                break
        cov["selftest"] = selftest_mutations("Trace_SockOpt", wd, {"corrupt_applied": c1, "corrupt_kernel": c2})
    cov["traces_validated_against_impl"] = len(scs)
    cov["trace_records"] = info["total"]
    cov["samples"] = [scs[0], scs[-1]]
    cov["exhaustive"] = False
    return v.finish(cov, assumptions=["getsockopt on the real socket is the ground truth for the option value",
                                      "the limit a hooked call applies is read through send_time_limit / recv_time_limit, the functions the hooked I/O loops call"])
