"""C27: hooked calls through io_uring (feature `io_uring`). Spec: IoUring.tla, Trace_IoUring.tla. Driver: uring."""
import random

from vlib import *  # noqa
from vlib import _collect_prints as vlib_collect

CLAUSES = {"wrong_result", "wrong_errno", "no_timeout", "lost_completion", "abort", "hang", "panic"}
DEVS = [("submit_before_insert", "NoLostCompletion"), ("timeout_keeps_slot", "any"), ("token_per_caller", "any"),
        ("token_ignores_thread", "any"), ("sq_concurrent_push", "NoLostCompletion"), ("code", "any")]


def run(pid, tier):
    v = Verdict(pid, tier)
    wd = workdir(pid)
    cov = {}
    bindir = build_harness("io_uring", bins=["uring"])
    mc_runs("IoUring", [("MC_IoUring.cfg", None)] + [("MC_IoUring_%s.cfg" % d, e) for d, e in DEVS], tier, cov)
    thorough = tier == "thorough"
    rng = random.Random(seed())
    scs = []
    for rep in range(4 if thorough else 1):
        for threads, cos in ((2, 0), (0, 3), (3, 3), (6, 6) if thorough else (4, 2)):
            scs.append({"kind": "own", "threads": threads, "cos": cos, "loops": rng.choice([1, 2]), "src": "own-completion"})
        scs.append({"kind": "error", "threads": 2, "cos": 2, "loops": 1, "src": "error-completions"})
        scs.append({"kind": "burst", "threads": 3, "rounds": 1000 if thorough else 300, "loops": 1, "src": "burst"})
        # the TLC counterexample of deviation submit_before_insert imposed on the real threads (pause point)
        scs.append({"kind": "gap", "threads": 2, "rounds": 20, "loops": 1, "src": "forced-reap-before-slot"})
        scs.append({"kind": "gap", "threads": 3, "rounds": 10, "loops": 2, "src": "forced-reap-before-slot"})
        # a call after one that gave up on its time limit (open known finding)
        scs.append({"kind": "again", "loops": 1, "src": "call-after-timeout"})
    for i, s in enumerate(scs):
        s["id"] = i + 1
        s["timeout_ms"] = 25000 + 30 * s.get("rounds", 0)
    tpath = drive(bindir, "uring", scs, wd, "ureset", "uend", timeout=3000)
    sanitize_ndjson(tpath, "uend")
    info = validate_full("Trace_IoUring", tpath)
    byid = {s["id"]: s for s in scs}

    class _R:  # noqa
        prints = vlib_collect(info["out"])
    cqes = {st[0]: st[1] for st in prints_tagged(_R, "STAT")}
    for x in info["viols"]:
        sc = byid.get(x[2], {})
        if x[1] in CLAUSES:
            v.add({"clause": x[1], "scenario_id": x[2], "trace_index": x[0], "detail": x[3] if len(x) > 3 else None,
                   "kind": sc.get("kind"), "src": sc.get("src"), "death": x[1] in ("abort", "hang", "panic"), "driver": "uring", "scenario": sc})
    if not any(n > 0 for n in cqes.values()):
        # the kernel (or the sandbox) refused the ring: the hooked calls fell back to the readiness path and nothing
        # of this property was exercised on the real code
        v.note("io_uring is not available at run time: only the model part of the property was decided")
        cov["io_uring_available"] = False
    else:
        cov["io_uring_available"] = True
    seg = first_segment(tpath, "ureset", "uend", want=lambda s: s[0].get("kind") == "own" and any(r.get("ev") == "ucall_e" for r in s) and
                        not any(r.get("ev") == "died" for r in s), maxlen=3000)
    if seg:
        c1 = [dict(r) for r in seg]
        es = [r for r in c1 if r.get("ev") == "ucall_e"]
        if len(es) >= 2:
            es[0]["ret"], es[1]["ret"] = es[1]["ret"], es[0]["ret"]
        c2 = [dict(r) for r in seg]
        for r in c2:
            if r.get("ev") == "ucall_e":
                r["data_ok"] = False
                break
        cov["selftest"] = selftest_mutations("Trace_IoUring", wd, {"swap_results": c1, "foreign_data": c2})
    cov["completions_dispatched"] = sum(cqes.values())
    cov["traces_validated_against_impl"] = len(scs)
    cov["trace_records"] = info["total"]
    cov["samples"] = [scs[0], scs[-1]]
    cov["exhaustive"] = False
    return v.finish(cov, assumptions=["the sandbox kernel accepts the SQPOLL ring the operator creates (checked at run time through the completion-dispatch hook)",
                                      "every descriptor is fed exactly one payload that names its caller, so a foreign completion is visible in length and bytes",
                                      "a call that never returns is recorded as a death of the scenario (watchdog 8 s)"])
