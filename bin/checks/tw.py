"""C14 (timed waits) and C15 (a blocked coroutine does not stall its loop). Spec: TimedWait.tla,
Trace_TimedWait.tla; C15 also CoPool.tla (creator listener grows the pool on syscall states) and
Trace_E2E.tla (clause no_overlap). Drivers: tw, e2e."""
import random

from vlib import *  # noqa

CLAUSES = {"early", "late", "einval", "probe_blocking", "abort", "hang", "panic", "join"}
TIMING = {"late", "early"}


def scenarios(tier):
    thorough = tier == "thorough"
    ts = [0, 300, 1000, 20000, 250000] + ([1000000] if thorough else [])
    scs = []
    for call in ("usleep", "nanosleep", "poll", "select", "cond", "sleep"):
        for t in ts:
            if call == "sleep" and t not in (0, 1000000):
                continue
            if call == "poll" and 0 < t < 1000:
                continue   # poll's unit is the millisecond
            for where in ("thread", "co"):
                scs.append({"call": call, "t_us": t, "where": where, "src": "grid"})
        if not thorough and call in ("poll", "select"):
            # slack that grows with the timeout (deviation nominal_slices of TimedWait.tla) only shows on a
            # second-scale request: one per sliced call in the quick tier too
            scs.append({"call": call, "t_us": 1000000, "where": "co", "src": "grid"})
    # the wait follows socket I/O of the same coroutine / thread: early resumptions (TimedWait!EarlyWake) must not shorten it
    for call in ("usleep", "nanosleep", "poll", "select", "cond"):
        for pre in ("recv_data", "recv_timeout"):
            for where in (("co", "thread") if call in ("usleep", "nanosleep") else ("co",)):
                scs.append({"call": call, "t_us": 250000, "where": where, "pre": pre, "src": "after-socket-io"})
    # a plain-thread caller is sent a signal (a handler that does nothing) every millisecond while it waits: every one interrupts the
    # poll its wait is made of, and the wait must go on; with "busy" a coroutine keeps the loop thread away from the selector
    for call in ("usleep", "nanosleep", "cond", "poll", "select"):
        for busy in (True, False):
            scs.append({"call": call, "t_us": 250000, "where": "thread", "signals": True, "busy": busy, "src": "interrupted-by-signals"})
    for call, inv in (("nanosleep", "neg_sec"), ("nanosleep", "neg_nsec"), ("nanosleep", "big_nsec"), ("select", "neg_sec"),
                      ("select", "neg_usec"), ("cond", "neg_nsec"), ("cond", "big_nsec")):
        for where in ("thread", "co"):
            scs.append({"call": call, "t_us": 20000, "where": where, "invalid": inv, "src": "invalid-argument"})
    # maximal requests: only required to keep waiting without dying (killed after 600 ms)
    for call, t in (("usleep", 4294967295), ("select", 4294967295 * 1000000 if False else 4000000000), ("poll", 2147483647000)):
        scs.append({"call": call, "t_us": t, "where": "thread", "long": True, "timeout_ms": 600, "src": "maximal"})
    for i, s in enumerate(scs):
        s["id"] = i + 1
        s.setdefault("invalid", "")
        s.setdefault("pre", "")
        s.setdefault("long", False)
        s.setdefault("timeout_ms", 8000)
    return scs


def one_round(bindir, scs, wd, tag):
    tpath = drive(bindir, "tw", scs, wd, "treset", "tend", timeout=3000, tag=tag)
    info = validate_full("Trace_TimedWait", tpath)
    return tpath, info


def run(pid, tier):
    v = Verdict(pid, tier)
    wd = workdir(pid)
    cov = {}
    bindir = build_harness()
    if pid == "C15":
        import e2e
        import pool as poolcheck
        mc_runs("CoPool", [("MC_CoPool.cfg", None)], tier, cov)
        scs = e2e.run_e2e("C15", tier, v, cov, wd, bindir)
        cov["samples"] = scs[:2]
        cov["exhaustive"] = False
        return v.finish(cov, assumptions=["order-based: when the first sleeper of a loop wakes, every other sleeping task of that loop must already have "
                                          "entered its sleep (N <= max_size)", "hooked usleep is called through open_coroutine_core::syscall, not through the interposed dylib"])
    mc_runs("TimedWait", [("MC_TimedWait.cfg", None), ("MC_TimedWait_select_us_as_ms.cfg", "NotLate"),
                          ("MC_TimedWait_nominal_slices.cfg", "NotLate"), ("MC_TimedWait_sleep_no_recheck.cfg", "NeverEarly"),
                          ("MC_TimedWait_eintr_ends_wait.cfg", "NeverEarly"),
                          ("MC_TimedWait_select_negative_abort.cfg", "InvalidRejected")], tier, cov)
    scs = scenarios(tier)
    tpath, info = one_round(bindir, scs, wd, "")
    byid = {s["id"]: s for s in scs}
    first = {}
    for x in info["viols"]:
        first.setdefault(x[2], []).append(x)
    # timing clauses must reproduce in 2 of 3 attempts; deaths and EINVAL clauses are deterministic
    retry = [byid[i] for i, xs in first.items() if any(x[1] in TIMING for x in xs)]
    confirmed = {}
    if retry:
        for attempt in (1, 2):
            rs = [dict(s) for s in retry]
            for j, s in enumerate(rs):
                s["orig"] = s["id"]
                s["id"] = j + 1
            _, inf = one_round(bindir, rs, wd, "_retry%d" % attempt)
            for x in inf["viols"]:
                if x[1] in TIMING:
                    confirmed[rs[x[2] - 1]["orig"]] = confirmed.get(rs[x[2] - 1]["orig"], 0) + 1
    for sid, xs in first.items():
        sc = byid[sid]
        for x in xs:
            rec = {"clause": x[1], "scenario_id": sid, "trace_index": x[0], "detail": x[3] if len(x) > 3 else None,
                   "call": sc["call"], "where": sc["where"], "t_us": sc["t_us"], "invalid": sc["invalid"], "pre": sc.get("pre", ""), "driver": "tw", "scenario": sc}
            if x[1] in TIMING and confirmed.get(sid, 0) < 1:
                v.note("timing clause %s of scenario %s did not reproduce (1 of 3): not reported" % (x[1], sid))
                continue
            if x[1] in CLAUSES:
                v.add(rec)
    seg = first_segment(tpath, "treset", "tend", want=lambda s: any(r.get("ev") == "tw_e" for r in s) and s[0].get("t_us", 0) >= 20000 and not s[0].get("invalid"))
    if seg:
        c1 = [dict(r) for r in seg]
        for r in c1:
            if r.get("ev") == "tw_e":
                r["us"] = 5
        c2 = [dict(r) for r in seg]
        for r in c2:
            if r.get("ev") == "tw_e":
                r["us"] = r["us"] + 5_000_000
        cov["selftest"] = selftest_mutations("Trace_TimedWait", wd, {"corrupt_early": c1, "corrupt_late": c2})
    cov["traces_validated_against_impl"] = len(scs)
    cov["trace_records"] = info["total"]
    cov["samples"] = [scs[0], scs[-1]]
    cov["exhaustive"] = False
    return v.finish(cov, assumptions=["envelope: elapsed >= T - (20 us + 0.1%) and <= T + 60 ms + 20%, measured on the monotonic clock",
                                      "a timing clause is reported only if it reproduces in 2 of 3 attempts; deaths and EINVAL clauses always",
                                      "maximal requests are only required to keep waiting (killed after 600 ms)"])
