"""C11, C12, C13 (and pool clauses of C02 / C05 / C01): coroutine pool. Spec: CoPool.tla,
Trace_CoPool.tla. Driver: pool (one process per scenario)."""
import random

from vlib import *  # noqa

CLAUSES = {
    "C11": {"running_mismatch", "over_max", "stop_slow"},
    "C12": {"pstate_backwards", "accepted_after_stop", "stop_lost_task", "waiter_unsettled", "stop_never_completes"},
    "C13": {"ran_after_cancel", "collateral_skip", "lost_task", "waiter_unsettled"},
    "C02": {"wrong_result", "late_join"},
    "C05": {"task_order"},
    "C01": {"ran_twice", "lost_task"},
}
DEATH = {"panic", "abort", "hang"}

# clauses that compare wall-clock times: reported only if they reproduce
TIMING = {"late_join", "stop_slow"}
DEVS = ["silent_cancel_drop", "join_no_recheck", "cancel_skip_unsettled", "stop_timeout_ok", "keepalive_precedence",
        "drop_undoes_cancel", "abandoned_stays_running", "count_before_create", "timeout_without_last_look", "suspended_looks_on_cpu"]


def cfg(nt, nw, mx, mn, ms, ops, waiters, view):
    return """SPECIFICATION Spec
CONSTANTS
  NT = %d
  NW = %d
  Max = %d
  Min = %d
  MaxSusp = %d
  MaxOps = %d
  Waiters = {%s}
  KeepAlive = FALSE
  Deviations = {}
%sINVARIANTS DumpHist
CHECK_DEADLOCK FALSE
""" % (nt, nw, mx, mn, ms, ops, ", ".join(str(w) for w in waiters), "VIEW view\n" if view else "")


def seeded(rng, pid):
    if pid == "C02" and rng.random() < 0.6:
        # the join race of CoPool.tla (W1 miss, R1 store, R2 notify, W2 register) imposed through the pause point
        nt = rng.choice([1, 2, 3])
        hist, outcomes = [], {}
        for t in range(1, nt + 1):
            outcomes[str(t)] = rng.choice(["ok", "ok", "panic"])
            hist.append({"a": "submit", "t": t})
            for _ in range(rng.randint(0, 1)):
                hist.append({"a": "body", "t": t, "step": "suspend"})
            hist.append({"a": "body", "t": t, "step": "finish"})
        w = rng.randint(1, nt)
        hist += [{"a": "wait", "t": w, "ms": 300, "race": True}, {"a": "pass"}, {"a": "tick"}, {"a": "pass"}]
        return {"nt": nt, "max": rng.choice([1, 2]), "min": 0, "hist": hist, "outcomes": outcomes, "prios": {}, "order": False,
                "src": "forced-join-race"}
    if pid == "C05":
        # one worker, everything queued before the first pass, no more tasks than the local capacity
        nt = rng.choice([3, 6, 8])
        hist, prios = [], {}
        for t in range(1, nt + 1):
            prios[str(t)] = rng.choice([0, 0, 1, -3, 9, -(2 ** 63), 2 ** 63 - 1])
            hist.append({"a": "submit", "t": t})
            hist.append({"a": "body", "t": t, "step": "finish"})
        hist += [{"a": "pass"}, {"a": "pass"}]
        return {"nt": nt, "max": 1, "min": 0, "hist": hist, "outcomes": {}, "prios": prios, "order": True, "src": "priority-batch"}
    if pid == "C13" and rng.random() < 0.3:
        # join handles that are dropped (CoPool.tla, Abandon): JoinHandle::try_cancel(self) drops the handle right after the
        # cancel; a handle may also be dropped before its task has finished and the task be cancelled much later
        shape = rng.choice(["cancel-then-drop", "drop-then-late-cancel", "drop-then-late-cancel"])
        if shape == "cancel-then-drop":
            nt = rng.choice([2, 3])
            v = rng.randint(1, nt)
            hist, outcomes = [], {}
            for t in range(1, nt + 1):
                outcomes[str(t)] = "ok"
                hist.append({"a": "submit", "t": t})
                hist.append({"a": "body", "t": t, "step": "finish"})
            hist += [{"a": "cancel", "t": v}, {"a": "abandon", "t": v}, {"a": "pass"}, {"a": "pass"}]
            return {"nt": nt, "max": rng.choice([1, 2]), "min": 0, "hist": hist, "outcomes": outcomes, "prios": {}, "order": False, "src": shape}
        # one worker: task 1 (handle dropped before it ends) finishes, the same worker goes on with task 2, which is
        # parked in a 40 ms delay when the late cancel of task 1 arrives
        hist = [{"a": "submit", "t": 1}, {"a": "body", "t": 1, "step": rng.choice(["suspend", "finish"])}, {"a": "body", "t": 1, "step": "finish"},
                {"a": "submit", "t": 2}, {"a": "body", "t": 2, "step": "long_delay"}, {"a": "body", "t": 2, "step": "finish"},
                {"a": "abandon", "t": 1}, {"a": "pass", "ms": 15}, {"a": "cancel", "t": 1}, {"a": "pass"}, {"a": "tick"}, {"a": "pass"}]
        return {"nt": 2, "max": 1, "min": 0, "hist": hist, "outcomes": {"1": "ok", "2": "ok"}, "prios": {}, "order": False, "src": shape}
    if pid == "C12" and rng.random() < 0.2:
        # a task accepted before the stop submits a follow-up from inside the pool while the pool is stopping (it is
        # refused) and needs another round afterwards: the stop must still complete, the pool must reach Stopped
        nt = rng.choice([1, 2])
        hist, outcomes = [], {}
        for t in range(1, nt + 1):
            outcomes[str(t)] = "ok"
            hist.append({"a": "submit", "t": t})
            hist += [{"a": "body", "t": t, "step": "chain"}, {"a": "body", "t": t, "step": rng.choice(["delay", "suspend"])},
                     {"a": "body", "t": t, "step": "finish"}]
        hist += [{"a": "stop", "ms": 250}]
        return {"nt": nt, "max": rng.choice([1, 2]), "min": 0, "hist": hist, "outcomes": outcomes, "prios": {}, "order": False,
                "src": "refused-follow-up-while-stopping"}
    if pid == "C02" and rng.random() < 0.12:
        # the waiter's deadline passes while the worker is between storing the result and notifying (CoPool!W3deadline):
        # the driver holds the worker there until 40 ms after the deadline; the wait must still report the result
        outcome = rng.choice(["ok", "panic"])
        hist = [{"a": "submit", "t": 1}, {"a": "wait", "t": 1, "ms": rng.choice([200, 300]), "race": "deadline"},
                {"a": "body", "t": 1, "step": "finish"}, {"a": "pass"}, {"a": "pass"}]
        return {"nt": 1, "max": 1, "min": 0, "hist": hist, "outcomes": {"1": outcome}, "prios": {}, "order": False,
                "src": "deadline-in-the-notify-window"}
    if pid == "C13" and rng.random() < 0.2:
        # a task that is on the CPU asks for the cancellation of another task that has started and is suspended
        # (CoPool!CancelFromTask): the caller and every other task must go on undisturbed
        nt = rng.choice([2, 3])
        hist = [{"a": "submit", "t": 1}, {"a": "body", "t": 1, "step": "long_delay"}, {"a": "body", "t": 1, "step": "finish"},
                {"a": "submit", "t": 2}, {"a": "body", "t": 2, "step": "cancel_task", "target": 1},
                {"a": "body", "t": 2, "step": rng.choice(["suspend", "delay"])}, {"a": "body", "t": 2, "step": "finish"}]
        if nt == 3:
            hist += [{"a": "submit", "t": 3}, {"a": "body", "t": 3, "step": "suspend"}, {"a": "body", "t": 3, "step": "finish"}]
        hist += [{"a": "wait", "t": 2, "ms": 300}, {"a": "pass"}, {"a": "pass"}, {"a": "tick"}, {"a": "pass"}]
        return {"nt": nt, "max": rng.choice([2, 4]), "min": 0, "hist": hist, "outcomes": {str(t): "ok" for t in range(1, nt + 1)}, "prios": {},
                "order": False, "src": "cancel-suspended-from-running-task"}
    if pid == "C11" and rng.random() < 0.25:
        # a positive keep-alive time (CoPool.tla, KeepAlive = TRUE): several workers are created (every task yields
        # once), the work completes, and the pool is stopped long before the workers' keep-alive time has passed.
        # (two or more workers: a single idle worker inside its keep-alive window never yields to the scheduler)
        nt = rng.choice([2, 3, 4])
        hist, outcomes = [], {}
        for t in range(1, nt + 1):
            outcomes[str(t)] = "ok"
            hist.append({"a": "submit", "t": t})
            hist.append({"a": "body", "t": t, "step": "suspend"})
            hist.append({"a": "body", "t": t, "step": "finish"})
        hist += [{"a": "pass", "ms": 20}, {"a": "pass", "ms": 20}] + [{"a": "tick"}] * 10 + [{"a": "stop", "ms": 250}]
        return {"nt": nt, "max": rng.choice([2, 4]), "min": 0, "keep_alive_ms": 1500, "hist": hist, "outcomes": outcomes, "prios": {},
                "order": False, "src": "keep-alive-then-stop"}
    nt = rng.choice([3, 5, 8])
    mx = rng.choice([1, 2, 4])
    # min_size > 0: the last idle worker of a pool at its minimum size has to give the thread back, otherwise a timed
    # pass never returns (and an event loop would stop looking at its timers and readiness events)
    mn = 1 if (pid in ("C11", "C12") and mx >= 1 and rng.random() < 0.2) else 0
    hist = []
    outcomes = {}
    prios = {}
    submitted = []
    waited = set()
    stopped = False
    order = mx == 1 and rng.random() < 0.5
    for t in range(1, nt + 1):
        outcomes[str(t)] = rng.choice(["ok", "ok", "panic"])
        prios[str(t)] = rng.choice([0, 0, 1, -3, 9])
        hist.append({"a": "submit", "t": t})
        submitted.append(t)
        for _ in range(rng.randint(0, 2)):
            hist.append({"a": "body", "t": t, "step": rng.choice(["suspend", "delay"])})
        hist.append({"a": "body", "t": t, "step": "finish"})
        if order:
            continue
        x = rng.random()
        if x < 0.25:
            hist.append({"a": "pass"})
        elif x < 0.4:
            hist.append({"a": "cancel", "t": rng.choice(submitted)})
        elif x < 0.55 and len(waited) < 3:
            w = rng.choice(submitted)
            if w not in waited:
                waited.add(w)
                hist.append({"a": "wait", "t": w, "ms": 300})
        elif x < 0.6:
            hist.append({"a": "tick"})
    for _ in range(rng.randint(1, 5)):
        x = rng.random()
        if x < 0.5:
            hist.append({"a": "pass"})
        elif x < 0.6:
            hist.append({"a": "tick"})
        elif x < 0.75 and not order:
            hist.append({"a": "cancel", "t": rng.choice(submitted)})
        elif x < 0.9 and len(waited) < 3:
            w = rng.choice(submitted)
            if w not in waited:
                waited.add(w)
                hist.append({"a": "wait", "t": w, "ms": 300})
        elif not stopped and pid in ("C12", "C11") and rng.random() < 0.5:
            stopped = True
            hist.append({"a": "stop", "ms": 250})
            if rng.random() < 0.5 and nt < 8:
                nt += 1
                outcomes[str(nt)] = "ok"
                prios[str(nt)] = 0
                hist.append({"a": "submit", "t": nt})
                hist.append({"a": "body", "t": nt, "step": "finish"})
    return {"nt": nt, "max": mx, "min": mn, "hist": hist, "outcomes": outcomes, "prios": prios, "order": order,
            "src": "seeded"}


def run(pid, tier):
    v = Verdict(pid, tier)
    wd = workdir(pid)
    cov = {}
    bindir = build_harness()
    insts = [("MC_CoPool.cfg", None), ("MC_CoPool_keepalive.cfg", None), ("MC_CoPool_abandon.cfg", None)] + [("MC_CoPool_%s.cfg" % d, "any") for d in DEVS]
    if tier == "thorough":
        insts.append(("MC_CoPool_big.cfg", None))
    mc_runs("CoPool", insts, tier, cov)
    scs = stage(pid, tier, v, cov, wd, bindir)
    if pid == "C12":
        # EventLoops::stop while submitter threads are still submitting: the cross-thread life cycle
        # (LoopStop.tla; every named deviation must be refuted, the loops must leave under fairness)
        mc_runs("LoopStop", [("MC_LoopStop.cfg", None), ("MC_LoopStop_live.cfg", None)] +
                [("MC_LoopStop_%s.cfg" % d, "any") for d in ("announce_in_thread", "unguarded_submit", "queue_before_inflight")],
                tier, cov)
        import e2e
        scs = scs + e2e.run_e2e("C12", tier, v, cov, wd, bindir)[:1]
    cov["samples"] = [scs[0], scs[-1]]
    cov["clauses_checked"] = sorted(CLAUSES[pid])
    cov["exhaustive"] = False
    return v.finish(cov, assumptions=ASSUMPTIONS)


ASSUMPTIONS = ["one pool per process (pools share the process-wide task queue and steal from each other by design)",
               "worker coroutines are identified through the co_submit / chg / cancel_drop hook events",
               "latency clauses (stop_slow, late_join) use one monotonic clock and thresholds of half / 80% of a >= 200 ms limit"]


def stage(pid, tier, v, cov, wd, bindir):
    """generate pool scenarios, run them, validate, add this property's violations to v"""
    thorough = tier == "thorough"
    rng = random.Random(seed() * 13 + int(pid[1:]))
    scs = []
    hs, _ = tlc_replays("CoPool", cfg(2, 3, 2, 0, 1, 6 if thorough else 5, [1, 2], True), "fin")
    cov["tlc_final_state_histories"] = len(hs)
    cap = 1500 if thorough else 260
    if len(hs) > cap:
        hs = rng.sample(hs, cap)
    scs += [{"nt": 2, "max": 2, "min": 0, "hist": h, "src": "tlc-final-states"} for h in hs]
    if pid == "C13":
        # histories with dropped join handles (Abandon) and late cancels: task 2 has no waiter thread
        hs, _ = tlc_replays("CoPool", cfg(2, 3, 2, 0, 1, 6 if thorough else 5, [1], True), "abandon")
        hs = [h for h in hs if any(x.get("a") == "abandon" for x in h)]
        cov["tlc_abandon_histories"] = len(hs)
        if len(hs) > cap:
            hs = rng.sample(hs, cap)
        scs += [{"nt": 2, "max": 2, "min": 0, "hist": h, "src": "tlc-final-states-abandon"} for h in hs]
    for i, (nt, nw, mx, mn, ms, d, ws) in enumerate([(3, 4, 2, 0, 2, 12, [1, 3]), (3, 3, 1, 0, 1, 12, [2]), (2, 3, 2, 0, 2, 10, [1])]):
        hs, _ = tlc_replays("CoPool", cfg(nt, nw, mx, mn, ms, d, ws, False), "sim%d" % i, simulate=(300 if thorough else 60),
                            depth=80, sd=seed() + i)
        cov["tlc_simulated_histories"] = cov.get("tlc_simulated_histories", 0) + len(hs)
        scs += [{"nt": nt, "max": mx, "min": mn, "hist": h, "src": "tlc-simulate"} for h in hs]
    for i in range(500 if thorough else 120):
        scs.append(seeded(rng, pid))
    for i, s in enumerate(scs):
        s["id"] = i + 1
        s.setdefault("order", False)
    tpath = drive(bindir, "pool", scs, wd, "preset", "pend", timeout=3000)
    info = validate_full("Trace_CoPool", tpath)
    byid = {s["id"]: s for s in scs}
    mine = CLAUSES[pid] | DEATH
    other = {}
    for x in info["viols"]:
        sc = byid.get(x[2], {})
        rec = {"clause": x[1], "scenario_id": x[2], "trace_index": x[0], "detail": x[3] if len(x) > 3 else None,
               "src": sc.get("src"), "driver": "pool", "scenario": sc}
        if x[1] in mine:
            if x[1] in TIMING and sc and not reproduces(bindir, "pool", sc, wd, "preset", "pend", "Trace_CoPool", x[1]):
                v.note("timing clause %s of scenario %s did not reproduce in two further runs of the scenario alone: not reported" % (x[1], x[2]))
                continue
            v.add(rec)
        else:
            other[x[1]] = other.get(x[1], 0) + 1
    if other:
        v.note("clauses of other properties observed: %s" % other)
    seg = first_segment(tpath, "preset", "pend", want=lambda s: any(r.get("ev") == "probe" and r.get("running", 0) > 0 for r in s) and
                        any(r.get("ev") == "task_run_b" for r in s), maxlen=600)
    if seg:
        c1 = [dict(r) for r in seg]
        for r in c1:
            if r.get("ev") == "probe" and r.get("running", 0) > 0:
                r["running"] = r["running"] + 1
                break
        c2 = [dict(r) for r in seg]
        pi = next(i for i, r in enumerate(c2) if r.get("ev") == "probe" and r.get("running", 0) > 0)
        live = set()
        for r in c2[:pi]:
            if r.get("ev") == "co_submit":
                live.add(r["w"])
            elif r.get("ev") == "cancel_drop" or (r.get("ev") == "chg" and r.get("new") in ("Complete", "Error", "Cancelled")):
                live.discard(r["w"])
        victim = min(live) if live else None
        for i in range(pi):
            if c2[i].get("ev") == "co_submit" and c2[i]["w"] == victim:
                del c2[i]
                break
        c3 = [dict(r) for r in seg]
        dup = next(r for r in c3 if r.get("ev") == "task_run_b")
        c3.insert(c3.index(dup) + 1, dict(dup))
        cov["selftest"] = selftest_mutations("Trace_CoPool", wd, {"corrupt": c1, "delete": c2, "duplicate": c3})
    cov["traces_validated_against_impl"] = cov.get("traces_validated_against_impl", 0) + len(scs)
    cov["pool_trace_records"] = info["total"]
    cov["pool_scenarios"] = len(scs)
    return scs
