#!/usr/bin/env python3
"""Prints the measured model-checking instances recorded in evidence/*.json as a markdown table (DESIGN.md, Appendix B)."""
import glob
import json
import os

ROOT = os.path.dirname(os.path.dirname(os.path.abspath(__file__)))
rows = {}
for f in sorted(glob.glob(os.path.join(ROOT, "evidence", "C*.json"))):
    ev = json.load(open(f))
    for r in ev.get("coverage", {}).get("mc_runs", []):
        key = (r.get("module", ""), r.get("cfg", ""))
        if key not in rows:
            rows[key] = (r, ev["property_id"], ev["tier"])
        else:
            rows[key] = (rows[key][0], rows[key][1] + " " + ev["property_id"], rows[key][2])
print("| instance | distinct states | states generated | depth | outcome | used by |")
print("|---|---|---|---|---|---|")
for (mod, cfg), (r, props, tier) in sorted(rows.items()):
    out = "holds" if not r.get("expected_violation") else "refuted: " + str(r["expected_violation"])
    print("| `%s` | %s | %s | %s | %s | %s |" % (cfg.replace(".cfg", ""), r.get("distinct", ""), r.get("generated", ""), r.get("depth", ""), out,
                                             " ".join(sorted(set(props.split())))))
