#!/usr/bin/env python3
import json, sys, os
import jsonschema
ROOT = os.path.dirname(os.path.dirname(os.path.abspath(__file__)))
m = json.load(open(os.path.join(ROOT, 'MANIFEST.json')))
jsonschema.validate(m, json.load(open('/root/.vp/MANIFEST.schema.json')))
es = json.load(open('/root/.vp/EVIDENCE.schema.json'))
for c in m['checks']:
    p = c['evidence_file']
    if os.path.exists(p):
        jsonschema.validate(json.load(open(p)), es)
        print('evidence ok', c['property_id'])
    else:
        print('evidence MISSING', c['property_id'])
print('manifest ok: %d checks' % len(m['checks']))
