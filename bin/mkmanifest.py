#!/usr/bin/env python3
"""Regenerates /verif/MANIFEST.json from the table below (keeps it valid at all times)."""
import json
import os

ROOT = os.path.dirname(os.path.dirname(os.path.abspath(__file__)))
ALL = ["C%02d" % i for i in range(1, 29)]

# property -> (technique, level text, level note, design_ref)
CLAIMED = {
    "C03": ("TLA+ design models (WorkStealQueue.tla sequential, WSQConc.tla concurrent counter) checked by TLC; "
            "TLC-generated + seeded histories replayed on the real queues; traces validated by TLC against Trace_WSQ.tla / Trace_WSQConc.tla",
            "Bounded exhaustive model checking of the queue algorithms (all histories of one driver up to 9 operations over 2-3 local queues; "
            "all interleavings of 3 threads x 3 shared push/pop operations with the length counter step-level), bound to the code by replaying "
            "thousands of TLC-generated histories and multi-thread stress runs on the real queues and validating every recorded event against the "
            "observable-layer specification (no duplicate, no phantom, drain = remainder, reported length exact).",
            "Trusts crossbeam-deque / crossbeam-skiplist / st3 when used as documented, the hook call sites (self-tested), TLC; bounds are small.",
            "DESIGN.md 3 C03"),
    "C04": ("TLA+ design model WorkStealQueue.tla (spill loop and sibling scan explicit; clause `spin`) checked by TLC; histories replayed on the real "
            "queues under a per-operation watchdog; traces validated by TLC against Trace_WSQ.tla",
            "Every loop of push/pop is explicit in the design model and TLC shows no reachable state in which the spill loop cannot finish (with the "
            "stale-length deviation it finds the hang in 4 steps); the real code is driven through TLC-generated and seeded histories (capacities 1..256, "
            "steal-then-push shapes) in a child process whose hang / panic / abort is recorded as a trace event and rejected by the trace specification.",
            "A hang is judged by a 2 s watchdog per operation; concurrency of owner and non-owner pushers is covered by C01's driver, not here.",
            "DESIGN.md 3 C04"),
    "C05": ("TLA+ observable layer (per-location priority FIFOs, PopOK) + design model checked by TLC; replay + trace validation (Trace_WSQ.tla)",
            "The order rule of the property (best priority first, FIFO among equals, per location; no spill below capacity; batch moves keep relative order) is "
            "an operator of the specification evaluated at every pop of every recorded real history, including i64 extreme priorities.",
            "Single-driver histories; locations are reconstructed from push/pop results plus spill/steal hook events.",
            "DESIGN.md 3 C05"),
    "C06": ("TLA+ design model with tick/period and sibling scan checked by TLC (Period scaled to 3); replay + trace validation with Period = 61",
            "TLC proves the starvation bound and the idle-finds-work clause on the bounded design model; real histories that keep a local queue busy for more "
            "than 61 pops with shared work waiting, and histories where stolen-from queues go idle, are validated against the same clauses.",
            "Single-driver histories (the idle clause is only meaningful without concurrent thieves).",
            "DESIGN.md 3 C06"),
}

PENDING_REASON = "check not built yet in this round (specification and driver pending); see DESIGN.md section 3"


def main():
    extra = {}
    p = os.path.join(ROOT, "bin", "manifest_extra.json")
    if os.path.exists(p):
        extra = json.load(open(p))
    claimed = dict(CLAIMED)
    for k, v in extra.get("claimed", {}).items():
        claimed[k] = tuple(v)
    na = extra.get("not_applicable", {})
    checks = []
    for pid in ALL:
        if pid not in claimed:
            continue
        tech, text, note, ref = claimed[pid]
        checks.append({
            "property_id": pid,
            "quick_cmd": "bin/verif check %s --tier quick" % pid,
            "thorough_cmd": "bin/verif check %s --tier thorough" % pid,
            "evidence_file": "/verif/evidence/%s.json" % pid,
            "replay_cmd_template": "bin/verif replay {path}",
            "engine": "tlc+harness",
            "level_claimed": {"category": "model_checking", "text": text, "design_ref": ref},
            "level_note": note,
            "technique": tech,
        })
    hooks_commits = []
    hp = os.path.join(ROOT, "bin", "hook_commits.txt")
    if os.path.exists(hp):
        hooks_commits = [l.split()[0] for l in open(hp) if l.strip()]
    m = {
        "version": 1,
        "setup_cmd": "bin/verif setup",
        "hooks": {
            "guard": "open_coroutine_verif",
            "enable": "RUSTFLAGS='--cfg open_coroutine_verif' (set in /verif/harness/.cargo/config.toml; the harness has a path dependency on /repo/core)",
            "baseline_off_cmd": "cd /repo && cargo nextest run --workspace --no-fail-fast --test-threads 8 --offline || cargo test --workspace --no-fail-fast --offline",
            "source_commits": hooks_commits,
            "add_only": True,
        },
        "engines": [
            {"name": "tlc+harness", "path": "bin/verif",
             "serves_properties": sorted(claimed),
             "kind_free_text": "explicit TLA+ specifications (spec/*.tla) model-checked by TLC; TLC-generated behaviours replayed on the real code by a Rust harness "
                               "(harness/), traces recorded from the real code validated by TLC against trace specifications (spec/Trace_*.tla)"}
        ],
        "checks": checks,
        "notes": "exit 0 = held on everything explored (KNOWN-FINDING lines possible), 1 = VIOLATION line + replay file, 2 = tool error. "
                 "known_findings.json lists repaired ('fixed') and open findings.",
        "not_applicable": [{"property_id": pid, "reason": na.get(pid, PENDING_REASON)} for pid in ALL if pid not in claimed],
    }
    with open(os.path.join(ROOT, "MANIFEST.json"), "w") as f:
        json.dump(m, f, indent=1)
    print("MANIFEST.json: %d checks, %d not_applicable" % (len(checks), len(m["not_applicable"])))


if __name__ == "__main__":
    main()
