"""Shared machinery for the open-coroutine TLA+ verification checks.

Exit codes used by every check: 0 = property held on everything explored
(possibly with KNOWN-FINDING lines), 1 = VIOLATION (line printed, replay file
written), 2 = tool error / timeout (never a verdict about the code).
"""
import json
import os
import re
import shutil
import subprocess
import sys
import time

ROOT = os.path.dirname(os.path.dirname(os.path.abspath(__file__)))
SPEC = os.path.join(ROOT, "spec")
HARNESS = os.path.join(ROOT, "harness")
WORK = os.path.join(ROOT, "work")
EVID = os.path.join(ROOT, "evidence")
REPLAYS = os.path.join(ROOT, "replays")
REPO = os.environ.get("VERIF_REPO", "/repo")
JAR = "/opt/veriftools/tla/tla2tools.jar:/opt/veriftools/tla/CommunityModules-deps.jar"
GUARD = "open_coroutine_verif"


class ToolError(Exception):
    pass


def log(*a):
    print(*a, flush=True)


def seed():
    try:
        return int(os.environ.get("VERIF_SEED", "1"))
    except ValueError:
        return 1


def workdir(pid, fresh=True):
    d = os.path.join(WORK, pid)
    if fresh and os.path.isdir(d):
        shutil.rmtree(d, ignore_errors=True)
    os.makedirs(d, exist_ok=True)
    return d


# --------------------------------------------------------------------------
# harness build
# --------------------------------------------------------------------------
def build_harness(features=None, bins=None):
    """Incremental offline build of the harness against REPO's working tree
    (path dependency), hooks on. Returns the directory holding the binaries."""
    feat = features or ""
    tdir = os.path.join(HARNESS, "target-" + (feat.replace(",", "_") or "default"))
    env = dict(os.environ)
    env["CARGO_NET_OFFLINE"] = "true"
    env["CARGO_TARGET_DIR"] = tdir
    env.pop("RUSTFLAGS", None)  # flags come from harness/.cargo/config.toml
    cmd = ["cargo", "build", "--release", "--offline"]
    if feat:
        cmd += ["--features", feat]
    if bins:
        for b in bins:
            cmd += ["--bin", b]
    t0 = time.time()
    # the lock file is copied from the repository so that no resolution is needed
    lock = os.path.join(HARNESS, "Cargo.lock")
    if not os.path.exists(lock):
        shutil.copy(os.path.join(REPO, "Cargo.lock"), lock)
    p = subprocess.run(cmd, cwd=HARNESS, env=env, stdout=subprocess.PIPE,
                       stderr=subprocess.STDOUT, text=True)
    if p.returncode != 0:
        log(p.stdout[-6000:])
        raise ToolError("harness build failed (does /repo still compile with --cfg %s?)" % GUARD)
    log("[build] harness (%s) ok in %.1fs" % (feat or "default", time.time() - t0))
    return os.path.join(tdir, "release")


# --------------------------------------------------------------------------
# TLC
# --------------------------------------------------------------------------
class TlcResult:
    def __init__(self):
        self.ok = False            # finished without error
        self.violated = None       # name of violated invariant / property, if any
        self.generated = 0
        self.distinct = 0
        self.depth = 0
        self.prints = []           # PrintT payload lines
        self.out = ""
        self.wall = 0.0
        self.coverage = {}         # action -> (distinct, total)
        self.timeout = False


_RE_STATS = re.compile(r"(\d+) states generated, (\d+) distinct states found")
_RE_INV = re.compile(r"Invariant (\S+) is violated")
_RE_PROP = re.compile(r"Temporal properties were violated|Action property (\S+) is violated|Temporal property (\S+) was violated")
_RE_DEPTH = re.compile(r"The depth of the complete state graph search is (\d+)")
_RE_COV = re.compile(r"^<(\w+) line \d+, col \d+ to line \d+, col \d+ of module (\w+)>: (\d+):(\d+)", re.M)


def tlc(module, cfg, workers=4, timeout=600, env_extra=None, simulate=None, depth=None,
        xmx="4g", deque=False, coverage=False, seed_=None, extra=None, metaname=None,
        continue_=False):
    """Run TLC on spec/<module>.tla with spec/<cfg>. Returns TlcResult."""
    meta = os.path.join(WORK, "tlc", metaname or (cfg.replace(".cfg", "") + "_%d" % os.getpid()))
    shutil.rmtree(meta, ignore_errors=True)
    os.makedirs(meta, exist_ok=True)
    env = dict(os.environ)
    jopts = "-Xss1g"
    if deque:
        jopts += " -Dtlc2.tool.queue.IStateQueue=StateDeque"
    env["JAVA_TOOL_OPTIONS"] = jopts
    if env_extra:
        env.update(env_extra)
    cmd = ["java", "-XX:+UseParallelGC", "-Xmx" + xmx, "-cp", JAR, "tlc2.TLC",
           "-workers", str(workers), "-metadir", meta, "-cleanup", "-noGenerateSpecTE",
           "-config", cfg]
    if coverage:
        cmd += ["-coverage", "1"]
    if simulate is not None:
        cmd += ["-simulate", "num=%d" % simulate]
        if seed_ is not None:
            cmd += ["-seed", str(seed_)]
    if depth is not None:
        cmd += ["-depth", str(depth)]
    if continue_:
        cmd += ["-continue"]
    if extra:
        cmd += extra
    cmd += [module + ".tla"]
    r = TlcResult()
    t0 = time.time()
    try:
        p = subprocess.run(cmd, cwd=SPEC, env=env, stdout=subprocess.PIPE,
                           stderr=subprocess.STDOUT, text=True, timeout=timeout)
        r.out = p.stdout
        rc = p.returncode
    except subprocess.TimeoutExpired as e:
        r.out = (e.stdout or b"").decode("utf-8", "replace") if isinstance(e.stdout, bytes) else (e.stdout or "")
        r.timeout = True
        rc = -1
    r.wall = time.time() - t0
    shutil.rmtree(meta, ignore_errors=True)
    for m in _RE_STATS.finditer(r.out):
        r.generated, r.distinct = int(m.group(1)), int(m.group(2))
    m = _RE_DEPTH.search(r.out)
    if m:
        r.depth = int(m.group(1))
    m = _RE_INV.search(r.out)
    if m:
        r.violated = m.group(1)
    else:
        m = _RE_PROP.search(r.out)
        if m:
            r.violated = m.group(1) or m.group(2) or "temporal"
    if "Deadlock reached" in r.out and r.violated is None:
        r.violated = "deadlock"
    if "The postcondition" in r.out and "violated" in r.out.split("The postcondition")[1][:200]:
        r.violated = r.violated or "postcondition"
    r.prints = _collect_prints(r.out)
    for m in _RE_COV.finditer(r.out):
        r.coverage[m.group(1)] = (int(m.group(3)), int(m.group(4)))
    finished = ("Model checking completed" in r.out) or ("Finished in" in r.out) or \
               (simulate is not None and "states generated" in r.out)
    r.ok = (rc == 0 and r.violated is None and finished)
    if rc not in (0, 12, 13, 11, 10) and not r.timeout and r.violated is None:
        # 10..13 are TLC's violation exit codes; anything else is a tool failure
        log(r.out[-4000:])
        raise ToolError("TLC failed on %s/%s (exit %s)" % (module, cfg, rc))
    if ("Parsing or semantic analysis failed" in r.out) or ("Error: " in r.out and "evaluat" in r.out and r.violated is None):
        log(r.out[-4000:])
        raise ToolError("TLC error on %s/%s" % (module, cfg))
    return r


def _collect_prints(out):
    """PrintT values may be pretty-printed over several lines: collect balanced <<...>>"""
    res = []
    cur = None
    depth = 0
    for line in out.splitlines():
        st = line.strip()
        if cur is None:
            if not st.startswith("<<"):
                continue
            cur = []
            depth = 0
        cur.append(st)
        depth += st.count("<<") + st.count("[") + st.count("{") - st.count(">>") - st.count("]") - st.count("}")
        if depth <= 0:
            res.append(re.sub(r'^<<\s+"', '<<"', " ".join(cur)))
            cur = None
    return res


def parse_tla_value(s):
    """Parse the small subset of TLA+ values the specs print: tuples <<..>>,
    strings, integers, booleans, records [a |-> v] and sets {..}."""
    pos = [0]

    def ws():
        while pos[0] < len(s) and s[pos[0]] in " \n\t\r":
            pos[0] += 1

    def val():
        ws()
        c = s[pos[0]]
        if s.startswith("<<", pos[0]):
            pos[0] += 2
            out = []
            ws()
            if s.startswith(">>", pos[0]):
                pos[0] += 2
                return out
            while True:
                out.append(val())
                ws()
                if s.startswith(">>", pos[0]):
                    pos[0] += 2
                    return out
                assert s[pos[0]] == ",", s[pos[0]:pos[0] + 20]
                pos[0] += 1
        if c == "{":
            pos[0] += 1
            out = []
            ws()
            if s[pos[0]] == "}":
                pos[0] += 1
                return out
            while True:
                out.append(val())
                ws()
                if s[pos[0]] == "}":
                    pos[0] += 1
                    return out
                pos[0] += 1
        if c == "[":
            pos[0] += 1
            out = {}
            while True:
                ws()
                m = re.match(r"(\w+)\s*\|->", s[pos[0]:])
                k = m.group(1)
                pos[0] += m.end()
                out[k] = val()
                ws()
                if s[pos[0]] == "]":
                    pos[0] += 1
                    return out
                pos[0] += 1
        if c == '"':
            j = pos[0] + 1
            buf = []
            while s[j] != '"':
                if s[j] == "\\":
                    j += 1
                buf.append(s[j])
                j += 1
            pos[0] = j + 1
            return "".join(buf)
        m = re.match(r"-?\d+", s[pos[0]:])
        if m:
            pos[0] += m.end()
            return int(m.group(0))
        m = re.match(r"TRUE|FALSE", s[pos[0]:])
        if m:
            pos[0] += m.end()
            return m.group(0) == "TRUE"
        m = re.match(r"\w+", s[pos[0]:])
        pos[0] += m.end()
        return m.group(0)

    return val()


def prints_tagged(res, tag):
    """PrintT lines of the form <<"TAG", ...>> parsed into python lists."""
    out = []
    pre = '<<"%s"' % tag
    for p in res.prints:
        if p.startswith(pre):
            try:
                out.append(parse_tla_value(p)[1:])
            except Exception:  # noqa
                raise ToolError("cannot parse TLC output line: " + p[:200])
    return out


def validate_trace(trace_module, cfg, trace_path, timeout=600, xmx="3g", env_extra=None, meta_suffix=""):
    """Trace validation: the trace spec reads IOEnv.TRACE, consumes every record
    and prints <<"VIOLS", n, <<...>>>> / <<"ACCEPT", consumed, total>>.
    Returns dict(consumed, total, viols=[[index, clause, detail], ...])."""
    env = {"TRACE": os.path.abspath(trace_path)}
    if env_extra:
        env.update(env_extra)
    r = tlc(trace_module, cfg, workers=1, timeout=timeout, env_extra=env, xmx=xmx, deque=True,
            metaname="tv_%s_%d%s" % (trace_module, os.getpid(), meta_suffix))
    if r.timeout:
        raise ToolError("trace validation timed out: %s" % trace_path)
    acc = prints_tagged(r, "ACCEPT")
    if not acc:
        log(r.out[-3000:])
        raise ToolError("trace validation produced no verdict: %s" % trace_path)
    consumed, total = acc[-1][0], acc[-1][1]
    viols = []
    for v in prints_tagged(r, "VIOL"):
        viols.append(v)
    info = {"consumed": consumed, "total": total, "viols": viols, "generated": r.generated,
            "distinct": r.distinct, "wall": r.wall, "out": r.out}
    return info


def validate_auto(trace_module, cfg, trace_path, timeout=600, env_extra=None):
    """validate_trace for traces of ordinary size; a long one (thorough tiers) is validated in pieces. The first
    record of a trace is its scenario-reset record."""
    if os.path.getsize(trace_path) < 40_000_000:
        return validate_trace(trace_module, cfg, trace_path, timeout=timeout, env_extra=env_extra)
    with open(trace_path) as f:
        first = json.loads(f.readline())
    return validate_split(trace_module, cfg, trace_path, first["ev"], timeout=timeout, env_extra=env_extra)


def validate_split(trace_module, cfg, trace_path, reset_ev, chunk=150000, parallel=4, timeout=900, env_extra=None):
    """Trace validation of a long trace in pieces: the trace is cut at scenario boundaries (records `reset_ev`) into
    files of about `chunk` records, the pieces are validated side by side, the verdicts are merged (record indices
    are those of the whole trace). The monitors keep no state across a reset record, so nothing is lost."""
    import concurrent.futures
    pieces = []          # (path, first index - 1, number of records)
    cur, n, start, total = None, 0, 0, 0
    marker = '"ev":"%s"' % reset_ev
    with open(trace_path) as f:
        for line in f:
            if not line.strip():
                continue
            if cur is None or (n >= chunk and marker in line.replace('": "', '":"')):
                if cur is not None:
                    cur.close()
                    pieces.append((ppath, start, n))
                    start += n
                ppath = "%s.part%d" % (trace_path, len(pieces))
                cur = open(ppath, "w")
                n = 0
            cur.write(line)
            n += 1
            total += 1
    if cur is not None:
        cur.close()
        pieces.append((ppath, start, n))
    if len(pieces) <= 1:
        for p, _, _ in pieces:
            os.remove(p)
        return validate_trace(trace_module, cfg, trace_path, timeout=timeout, env_extra=env_extra)

    def one(args):
        i, (p, off, cnt) = args
        info = validate_trace(trace_module, cfg, p, timeout=timeout, meta_suffix="_p%d" % i, env_extra=env_extra)
        return off, cnt, info
    merged = {"consumed": 0, "total": total, "viols": [], "generated": 0, "distinct": 0, "wall": 0.0, "out": ""}
    try:
        with concurrent.futures.ThreadPoolExecutor(max_workers=parallel) as ex:
            results = list(ex.map(one, enumerate(pieces)))
    finally:
        for p, _, _ in pieces:
            try:
                os.remove(p)
            except OSError:
                pass
    complete = True
    for off, cnt, info in sorted(results, key=lambda r: r[0]):
        if complete:
            merged["consumed"] = off + info["consumed"]
            complete = info["consumed"] == info["total"]
        for x in info["viols"]:
            merged["viols"].append([x[0] + off] + list(x[1:]))
        merged["generated"] += info["generated"]
        merged["distinct"] += info["distinct"]
        merged["wall"] = max(merged["wall"], info["wall"])
    return merged


# --------------------------------------------------------------------------
# harness execution
# --------------------------------------------------------------------------
def run_bin(bindir, name, args, timeout=300, env_extra=None, stdin=None):
    env = dict(os.environ)
    env.setdefault("RUST_BACKTRACE", "0")
    if env_extra:
        env.update(env_extra)
    try:
        p = subprocess.run([os.path.join(bindir, name)] + [str(a) for a in args], env=env,
                           stdout=subprocess.PIPE, stderr=subprocess.PIPE, text=True,
                           timeout=timeout, input=stdin)
        return p.returncode, p.stdout, p.stderr
    except subprocess.TimeoutExpired as e:
        return None, (e.stdout or ""), (e.stderr or "")


def read_ndjson(path):
    out = []
    with open(path) as f:
        for line in f:
            line = line.strip()
            if line:
                out.append(json.loads(line))
    return out


def sanitize_ndjson(path, end_ev):
    """Drivers whose code under test may corrupt the process (signal preemption, faults) can leave a
    garbled line behind: such a line is evidence that the process broke, not a malformed trace. It is
    replaced by a `died` record (how = "abort") so that the trace specification judges it as data."""
    out, bad = [], 0
    with open(path, errors="replace") as f:
        for line in f:
            t = line.strip()
            if not t:
                continue
            try:
                r = json.loads(t)
                if not isinstance(r, dict) or "ev" not in r:
                    raise ValueError
                out.append(t)
            except ValueError:
                bad += 1
                out.append(json.dumps({"ev": "died", "how": "abort", "msg": "garbled trace record: " + t[:80],
                                       "scenario": 0, "step": 0, "seq": 0, "th": 999}))
    if bad:
        with open(path, "w") as f:
            f.write("\n".join(out) + "\n")
    return bad


def write_ndjson(path, recs):
    with open(path, "w") as f:
        for r in recs:
            f.write(json.dumps(r, separators=(",", ":")) + "\n")


# --------------------------------------------------------------------------
# known findings, verdicts, evidence
# --------------------------------------------------------------------------
def load_known(pid):
    path = os.path.join(ROOT, "known_findings.json")
    if not os.path.exists(path):
        return []
    with open(path) as f:
        data = json.load(f)
    return [e for e in data.get("findings", []) if e.get("property") == pid]


def _match(entry, viol):
    if entry.get("status") != "open":
        return False
    for k, want in entry.get("match", {}).items():
        have = viol.get(k)
        if isinstance(want, list):
            if have not in want:
                return False
        elif isinstance(want, dict) and "re" in want:
            if have is None or not re.search(want["re"], str(have)):
                return False
        elif have != want:
            return False
    return True


class Verdict:
    """Collects violation records; classifies against known_findings.json."""

    def __init__(self, pid, tier):
        self.pid = pid
        self.tier = tier
        self.viols = []     # dicts with at least 'clause'
        self.notes = []
        self.t0 = time.time()

    def add(self, viol):
        self.viols.append(viol)

    def note(self, s):
        self.notes.append(s)
        log("NOTE " + s)

    def finish(self, coverage, level="model_checking", assumptions=None):
        known = load_known(self.pid)
        seen_known = {}
        fresh = []
        for v in self.viols:
            hit = None
            for e in known:
                if _match(e, v):
                    hit = e
                    break
            if hit:
                seen_known.setdefault(hit["key"], [hit, 0])[1] += 1
            else:
                fresh.append(v)
        for key, (e, n) in sorted(seen_known.items()):
            log("KNOWN-FINDING: property=%s %s [%s, observed %d time(s) in this run]" %
                (self.pid, e["what"], key, n))
        for e in known:
            if e.get("status") == "open" and e["key"] not in seen_known:
                log("NOTE known finding %s not re-observed in this run (%s tier)" % (e["key"], self.tier))
        rc = 0
        replay_paths = []
        if fresh:
            d = os.path.join(REPLAYS, self.pid)
            os.makedirs(d, exist_ok=True)
            # group by clause, keep first of each for the replay files
            by = {}
            for v in fresh:
                by.setdefault(v.get("clause", "?"), []).append(v)
            for clause, vs in sorted(by.items()):
                path = os.path.join(d, "%s_%s_%d.json" % (self.tier, re.sub(r"\W+", "_", clause), seed()))
                with open(path, "w") as f:
                    json.dump({"property": self.pid, "clause": clause, "count": len(vs),
                               "first": vs[0], "more": vs[1:5]}, f, indent=1, default=str)
                replay_paths.append(path)
                log("VIOLATION property=%s replay=%s" % (self.pid, path))
                log("  clause=%s count=%d first=%s" % (clause, len(vs), json.dumps(vs[0], default=str)[:600]))
            rc = 1
        cov = dict(coverage)
        if not cov.get("samples"):
            raise ToolError("internal: the check recorded no sample scenario for its evidence")
        cov["known_findings_observed"] = {k: n for k, (e, n) in seen_known.items()}
        cov["notes"] = self.notes[:50]
        ev = {
            "property_id": self.pid,
            "tier": self.tier,
            "seed": seed(),
            "level": level,
            "coverage": cov,
            "assumptions": assumptions or [],
            "wall_s": round(time.time() - self.t0, 2),
            "violations": len(fresh),
        }
        os.makedirs(EVID, exist_ok=True)
        with open(os.path.join(EVID, self.pid + ".json"), "w") as f:
            json.dump(ev, f, indent=1, default=str)
        log("[%s] %s tier done in %.1fs: %d violation record(s), %d fresh" %
            (self.pid, self.tier, time.time() - self.t0, len(self.viols), len(fresh)))
        return rc


def require_mc_ok(res, what, expect_violation=None):
    """The bounded design model must satisfy its invariants (or, for a named
    deviation instance, must produce the expected counterexample)."""
    if res.timeout:
        raise ToolError("TLC timed out on " + what)
    if expect_violation is None:
        if not res.ok:
            log(res.out[-5000:])
            raise ToolError("model check of %s failed: %s — the specification itself is broken "
                            "(this is a defect of the machinery, not of /repo)" % (what, res.violated))
    else:
        if res.violated is None:
            log(res.out[-3000:])
            raise ToolError("deviation instance %s did not produce the expected counterexample" % what)


# --------------------------------------------------------------------------
# generic scenario driver loop (restart after a death) and generation helpers
# --------------------------------------------------------------------------
def drive(bindir, name, scs, wd, reset_ev, end_ev, timeout=1200, extra_args=None, env_extra=None, tag=""):
    """Run harness binary `name` over the scenarios; if the process dies (hang exit 3, abort,
    signal) the death is appended to the trace as data and the driver is restarted after the
    scenario in flight. Scenario ids must be 1..n in order."""
    spath = os.path.join(wd, "scenarios%s.jsonl" % tag)
    tpath = os.path.join(wd, "trace%s.ndjson" % tag)
    with open(spath, "w") as f:
        for s in scs:
            f.write(json.dumps(s, separators=(",", ":")) + "\n")
    if os.path.exists(tpath):
        os.remove(tpath)
    start = 0
    restarts = 0
    while start < len(scs):
        rc, out, err = run_bin(bindir, name, [spath, tpath, "--from", start, "--append"] + (extra_args or []),
                               timeout=timeout, env_extra=env_extra)
        for line in (err or "").splitlines():
            if line.startswith("NOTE "):
                log(line)
        if rc == 0:
            break
        recs = read_ndjson(tpath) if os.path.exists(tpath) else []
        last = max((i for i, r in enumerate(recs) if r.get("ev") == reset_ev), default=None)
        if last is None:
            raise ToolError("driver %s failed before the first scenario: rc=%s %s" % (name, rc, (err or "")[-800:]))
        sid = recs[last]["scenario"]
        with open(tpath, "a") as f:
            if rc != 3:
                how = "hang" if rc is None else "abort"
                f.write(json.dumps({"ev": "died", "how": how, "msg": "driver exit %s: %s" % (rc, (err or "").strip()[-300:]),
                                    "scenario": sid, "step": 0, "seq": 0, "th": 999}) + "\n")
            f.write(json.dumps({"ev": end_ev, "scenario": sid, "seq": 0, "th": 999}) + "\n")
        start = sid
        restarts += 1
        if restarts > 150:
            # every death is already in the trace as data; do not spend the time budget on hundreds more
            log("NOTE driver %s died in more than 150 scenarios: the remaining %d scenarios are skipped" % (name, len(scs) - start))
            break
    return tpath


def tlc_replays(module, cfg_text, name, simulate=None, depth=None, sd=None, workers=4, timeout=900):
    """Run TLC on a generated cfg and return the JSON payloads of <<"REPLAY", json>> prints."""
    cfg = "gen_%s_%s_%d.cfg" % (module, name, os.getpid())
    path = os.path.join(SPEC, cfg)
    with open(path, "w") as f:
        f.write(cfg_text)
    try:
        r = tlc(module, cfg, workers=(1 if simulate else workers), timeout=timeout, simulate=simulate,
                depth=depth, seed_=sd, metaname="gen_%s_%s_%d" % (module, name, os.getpid()))
    finally:
        os.remove(path)
    if r.timeout:
        raise ToolError("scenario generation timed out (%s/%s)" % (module, name))
    return [json.loads(p[0]) for p in prints_tagged(r, "REPLAY")], r


def reproduces(bindir, driver, sc, wd, reset_ev, end_ev, trace_module, clause, times=2, tag="_again"):
    """A clause that compares wall-clock times is reported only if the scenario, run again alone `times` times, shows
    it every time (a busy machine stretches a single run; a defect that makes the clause true is there every time)."""
    again = 0
    for k in range(times):
        one = dict(sc)
        one["id"] = 1
        t2 = drive(bindir, driver, [one], wd, reset_ev, end_ev, timeout=600, tag="%s%d" % (tag, k))
        i2 = validate_full(trace_module, t2)
        again += 1 if any(y[1] == clause for y in i2["viols"]) else 0
    return again == times


def mc_runs(module, insts, tier, cov, timeout=1800):
    """insts: list of (cfg, expected_violation or None). Accumulates states/transitions."""
    w = 8 if tier == "thorough" else 4
    runs = cov.setdefault("mc_runs", [])
    for cfg, expect in insts:
        r = tlc(module, cfg, workers=w, timeout=timeout)
        require_mc_ok(r, cfg, expect_violation=expect)
        if expect is None:
            cov["states"] = cov.get("states", 0) + r.distinct
            cov["transitions"] = cov.get("transitions", 0) + r.generated
        runs.append({"module": module, "cfg": cfg, "distinct": r.distinct, "generated": r.generated, "depth": r.depth,
                     "expected_violation": (r.violated if expect else None), "wall_s": round(r.wall, 1)})


def validate_full(trace_module, tpath, timeout=1800, env_extra=None):
    info = validate_auto(trace_module, trace_module + ".cfg", tpath, timeout=timeout, env_extra=env_extra)
    if info["consumed"] != info["total"]:
        raise ToolError("trace %s not fully consumed by %s (%s of %s): malformed record %s" %
                        (tpath, trace_module, info["consumed"], info["total"], info["consumed"] + 1))
    return info


def selftest_mutations(trace_module, wd, variants):
    """variants: {name: records}; each corrupted trace must draw at least one VIOL"""
    res = {}
    for name, recs in variants.items():
        p = os.path.join(wd, "selftest_%s.ndjson" % name)
        write_ndjson(p, recs)
        info = validate_trace(trace_module, trace_module + ".cfg", p, timeout=180)
        res[name] = len(info["viols"]) + (1 if info["consumed"] != info["total"] else 0)
        if res[name] == 0:
            log("NOTE binding self-test: the '%s' mutation of the sampled trace was accepted by %s "
                "(the mutation did not touch a constrained value in this sample)" % (name, trace_module))
    if res and all(n == 0 for n in res.values()):
        raise ToolError("binding self-test failed: every mutated trace was accepted by %s" % trace_module)
    return res


def first_segment(tpath, reset_ev, end_ev, want=None, maxlen=500):
    recs = read_ndjson(tpath)
    seg = []
    for r in recs:
        if r.get("ev") == reset_ev:
            seg = []
        seg.append(r)
        if r.get("ev") == end_ev:
            if len(seg) <= maxlen and (want is None or want(seg)):
                return seg
            seg = []
    return None
