//! Conformance harness for the TLA+ specifications under /verif/spec.
//!
//! Every driver binary reads *scenarios* (JSON, one per line; produced by TLC or by a seeded
//! generator), executes them against the real open-coroutine types and appends NDJSON trace
//! records to an output file. The trace specifications (`spec/Trace_*.tla`) validate them.
use serde_json::{json, Map, Value};
use std::fs::{File, OpenOptions};
use std::io::{BufRead, BufReader, BufWriter, Write};
use std::sync::atomic::{AtomicBool, AtomicU64, Ordering};
use std::sync::{Mutex, OnceLock};
use std::time::{Duration, Instant};

static OUT: OnceLock<Mutex<BufWriter<File>>> = OnceLock::new();
static SEQ: AtomicU64 = AtomicU64::new(0);
static PROGRESS: AtomicU64 = AtomicU64::new(0);
static WATCH_ARMED: AtomicBool = AtomicBool::new(false);
static WATCH_LIMIT_MS: AtomicU64 = AtomicU64::new(2000);
static CUR_SCENARIO: AtomicU64 = AtomicU64::new(0);
static CUR_STEP: AtomicU64 = AtomicU64::new(0);

/// exit code of a driver that stopped because the code under test hung / died:
/// the python driver restarts it after the scenario recorded in the `died` record
pub const EXIT_DIED: i32 = 3;

pub fn open_out(path: &str, append: bool) {
    let f = OpenOptions::new()
        .create(true)
        .write(true)
        .append(append)
        .truncate(!append)
        .open(path)
        .unwrap_or_else(|e| panic!("cannot open trace file {path}: {e}"));
    let _ = OUT.set(Mutex::new(BufWriter::new(f)));
}

pub fn tid() -> u64 {
    thread_local! { static T: u64 = { static N: AtomicU64 = AtomicU64::new(0); N.fetch_add(1, Ordering::SeqCst) }; }
    T.with(|t| *t)
}

/// write one record; `seq` and `th` are added here, under the writer lock, so that file order,
/// sequence order and the order in which threads passed this point agree
pub fn rec(mut v: Value) {
    let out = OUT.get().expect("trace output not opened");
    // a coroutine preempted by SIGURG while it holds the writer lock would block every other thread,
    // its own scheduler included: drivers that enable preemption keep the signal out of this section
    let _mask = SigurgBlocked::enter();
    let mut g = out.lock().unwrap_or_else(|e| e.into_inner());
    if let Value::Object(m) = &mut v {
        m.insert("seq".into(), json!(SEQ.fetch_add(1, Ordering::SeqCst)));
        m.insert("th".into(), json!(tid()));
        m.insert("t".into(), json!(mono_ns() / 1000));
    }
    let _ = serde_json::to_writer(&mut *g, &v);
    let _ = g.write_all(b"\n");
    if AUTOFLUSH.load(Ordering::Relaxed) {
        let _ = g.flush();
    }
    PROGRESS.fetch_add(1, Ordering::SeqCst);
}

static AUTOFLUSH: AtomicBool = AtomicBool::new(false);
static BLOCK_SIGURG: AtomicBool = AtomicBool::new(false);

/// block SIGURG while a trace record is written (preemption drivers)
pub fn set_block_sigurg(on: bool) {
    BLOCK_SIGURG.store(on, Ordering::SeqCst);
}

struct SigurgBlocked(Option<libc::sigset_t>);

impl SigurgBlocked {
    fn enter() -> Self {
        if !BLOCK_SIGURG.load(Ordering::Relaxed) {
            return SigurgBlocked(None);
        }
        unsafe {
            let mut set: libc::sigset_t = std::mem::zeroed();
            let mut old: libc::sigset_t = std::mem::zeroed();
            libc::sigemptyset(&mut set);
            libc::sigaddset(&mut set, libc::SIGURG);
            libc::pthread_sigmask(libc::SIG_BLOCK, &set, &mut old);
            SigurgBlocked(Some(old))
        }
    }
}

impl Drop for SigurgBlocked {
    fn drop(&mut self) {
        if let Some(old) = self.0.take() {
            unsafe {
                libc::pthread_sigmask(libc::SIG_SETMASK, &old, std::ptr::null_mut());
            }
        }
    }
}

/// flush after every record (used by isolated children, which may be killed at any time)
pub fn set_autoflush(on: bool) {
    AUTOFLUSH.store(on, Ordering::SeqCst);
}

pub fn flush() {
    if let Some(out) = OUT.get() {
        let mut g = out.lock().unwrap_or_else(|e| e.into_inner());
        let _ = g.flush();
    }
}

/// route the repository's verification hook events into the trace; `map` may rewrite a record
/// (e.g. map raw priorities to the small model values) or drop it by returning None
pub fn install_hook_sink(map: Option<Box<dyn Fn(Map<String, Value>) -> Option<Map<String, Value>> + Send + Sync>>) {
    open_coroutine_core::common::verif::set_sink(Some(Box::new(move |_seq, body| {
        let text = format!("{{{body}}}");
        match serde_json::from_str::<Value>(&text) {
            Ok(Value::Object(m)) => {
                let m = match &map {
                    Some(f) => f(m),
                    None => Some(m),
                };
                if let Some(mut m) = m {
                    m.insert("hook".into(), json!(1));
                    rec(Value::Object(m));
                }
            }
            _ => rec(json!({"ev": "bad_hook", "raw": text})),
        }
    })));
}

pub fn progress() {
    PROGRESS.fetch_add(1, Ordering::SeqCst);
}

pub fn set_position(scenario: u64, step: u64) {
    CUR_SCENARIO.store(scenario, Ordering::SeqCst);
    CUR_STEP.store(step, Ordering::SeqCst);
    PROGRESS.fetch_add(1, Ordering::SeqCst);
}

/// Start the watchdog thread: if no progress is made for `limit` while armed, a `died`
/// record (how = "hang") is written and the process exits with EXIT_DIED.
pub fn start_watchdog(limit: Duration) {
    WATCH_LIMIT_MS.store(limit.as_millis() as u64, Ordering::SeqCst);
    WATCH_ARMED.store(true, Ordering::SeqCst);
    std::thread::spawn(move || {
        let mut last = PROGRESS.load(Ordering::SeqCst);
        let mut since = Instant::now();
        loop {
            std::thread::sleep(Duration::from_millis(20));
            let now = PROGRESS.load(Ordering::SeqCst);
            if now != last || !WATCH_ARMED.load(Ordering::SeqCst) {
                last = now;
                since = Instant::now();
                continue;
            }
            if since.elapsed().as_millis() as u64 >= WATCH_LIMIT_MS.load(Ordering::SeqCst) {
                died("hang", "no progress");
            }
        }
    });
}

pub fn arm_watchdog(on: bool) {
    PROGRESS.fetch_add(1, Ordering::SeqCst);
    WATCH_ARMED.store(on, Ordering::SeqCst);
}

pub fn set_watchdog_limit(limit: Duration) {
    WATCH_LIMIT_MS.store(limit.as_millis() as u64, Ordering::SeqCst);
    PROGRESS.fetch_add(1, Ordering::SeqCst);
}

/// record the death of the scenario in flight and leave; never returns
pub fn died(how: &str, msg: &str) -> ! {
    // do not take the writer lock blindly: the hung thread may hold it. try for a moment.
    let v = json!({"ev": "died", "how": how, "msg": msg,
        "scenario": CUR_SCENARIO.load(Ordering::SeqCst), "step": CUR_STEP.load(Ordering::SeqCst),
        "seq": SEQ.fetch_add(1, Ordering::SeqCst), "th": 999});
    if let Some(out) = OUT.get() {
        let t0 = Instant::now();
        loop {
            if let Ok(mut g) = out.try_lock() {
                let _ = serde_json::to_writer(&mut *g, &v);
                let _ = g.write_all(b"\n");
                let _ = g.flush();
                break;
            }
            if t0.elapsed() > Duration::from_millis(500) {
                break;
            }
            std::thread::sleep(Duration::from_millis(5));
        }
    }
    unsafe { libc::_exit(EXIT_DIED) }
}

pub fn read_scenarios(path: &str) -> Vec<Value> {
    let f = File::open(path).unwrap_or_else(|e| panic!("cannot open scenarios {path}: {e}"));
    BufReader::new(f)
        .lines()
        .map(|l| l.expect("read"))
        .filter(|l| !l.trim().is_empty())
        .map(|l| serde_json::from_str(&l).unwrap_or_else(|e| panic!("bad scenario line: {e}: {l}")))
        .collect()
}

/// the k-th (0-based) non-empty line of the scenario file
pub fn read_scenario_at(path: &str, k: usize) -> Value {
    let f = File::open(path).unwrap_or_else(|e| panic!("cannot open scenarios {path}: {e}"));
    let l = BufReader::new(f)
        .lines()
        .map(|l| l.expect("read"))
        .filter(|l| !l.trim().is_empty())
        .nth(k)
        .unwrap_or_else(|| panic!("no scenario {k} in {path}"));
    serde_json::from_str(&l).unwrap_or_else(|e| panic!("bad scenario line: {e}: {l}"))
}

/// command line: <scenarios> <trace_out> [--from K] [--append]
pub struct Args {
    pub scenarios: String,
    pub out: String,
    pub from: u64,
    pub append: bool,
    pub rest: Vec<String>,
}

pub fn args() -> Args {
    let a: Vec<String> = std::env::args().skip(1).collect();
    let mut from = 0;
    let mut append = false;
    let mut pos = vec![];
    let mut i = 0;
    while i < a.len() {
        match a[i].as_str() {
            "--from" => {
                from = a[i + 1].parse().expect("--from K");
                i += 1;
            }
            "--append" => append = true,
            _ => pos.push(a[i].clone()),
        }
        i += 1;
    }
    assert!(pos.len() >= 2, "usage: <scenarios> <trace_out> [--from K] [--append]");
    Args { scenarios: pos[0].clone(), out: pos[1].clone(), from, append, rest: pos[2..].to_vec() }
}

pub fn panic_msg(e: &Box<dyn std::any::Any + Send>) -> String {
    if let Some(s) = e.downcast_ref::<&'static str>() {
        (*s).to_string()
    } else if let Some(s) = e.downcast_ref::<String>() {
        s.clone()
    } else {
        "non-string panic".to_string()
    }
}

/// Run every scenario in its own child process (process-global runtime state never leaks from
/// one scenario into the next), `parallel` children at a time; a child that hangs, aborts or is
/// killed by a signal is recorded as a `died` event. Output order is scenario order.
/// Child invocation: `<exe> <scenarios> <tmp_out> --only <index>`.
pub fn isolated_main(reset_ev: &str, end_ev: &str, default_timeout_ms: u64, parallel: usize, run_one: fn(&Value)) {
    let argv: Vec<String> = std::env::args().collect();
    if let Some(p) = argv.iter().position(|x| x == "--only") {
        let k: usize = argv[p + 1].parse().expect("--only K");
        open_out(&argv[2], false);
        set_autoflush(true);
        std::panic::set_hook(Box::new(|_| {}));
        // only this child's own line is parsed: a child of a batch of some thousand scenarios spent most of its
        // life (0.3 s of CPU) parsing everybody else's
        let sc = &read_scenario_at(&argv[1], k);
        let r = std::panic::catch_unwind(std::panic::AssertUnwindSafe(|| run_one(sc)));
        if let Err(e) = r {
            rec(json!({"ev": "died", "how": "panic", "msg": panic_msg(&e), "scenario": sc["id"], "step": 0}));
        }
        flush();
        unsafe { libc::_exit(0) };
    }
    let a = args();
    let scs = read_scenarios(&a.scenarios);
    let exe = std::env::current_exe().expect("current exe");
    let n = scs.len();
    let next = std::sync::Arc::new(std::sync::atomic::AtomicUsize::new(a.from as usize));
    let results: std::sync::Arc<Mutex<Vec<Option<String>>>> = std::sync::Arc::new(Mutex::new(vec![None; n]));
    let mut hs = vec![];
    for _ in 0..parallel.max(1) {
        let next = next.clone();
        let results = results.clone();
        let scs = scs.clone();
        let exe = exe.clone();
        let scen_path = a.scenarios.clone();
        let out_base = a.out.clone();
        let reset_ev = reset_ev.to_string();
        let end_ev = end_ev.to_string();
        hs.push(std::thread::spawn(move || loop {
            let i = next.fetch_add(1, Ordering::SeqCst);
            if i >= scs.len() {
                break;
            }
            let sc = &scs[i];
            let tmp = format!("{out_base}.child{i}");
            let tmp_err = format!("{out_base}.child{i}.err");
            let limit = Duration::from_millis(sc.get("timeout_ms").and_then(Value::as_u64).unwrap_or(default_timeout_ms));
            let mut attempt = 0;
            let (status, how, err, mut text) = loop {
            attempt += 1;
            let _ = std::fs::remove_file(&tmp);
            // stderr goes to a file: a pipe that nobody reads while the child runs would block a child that
            // writes more than the pipe holds (the runtime prints a line per thread token with io_uring)
            let errf = File::create(&tmp_err).expect("create stderr file");
            let mut child = std::process::Command::new(&exe)
                .arg(&scen_path)
                .arg(&tmp)
                .arg("--only")
                .arg(i.to_string())
                .stdout(std::process::Stdio::null())
                .stderr(errf)
                .spawn()
                .expect("spawn child");
            let t0 = Instant::now();
            let mut how: Option<String> = None;
            let status = loop {
                match child.try_wait() {
                    Ok(Some(st)) => break Some(st),
                    Ok(None) => {
                        if t0.elapsed() > limit {
                            let _ = child.kill();
                            let _ = child.wait();
                            how = Some("hang".into());
                            break None;
                        }
                        std::thread::sleep(Duration::from_millis(2));
                    }
                    Err(_) => break None,
                }
            };
            let mut err: String = std::fs::read(&tmp_err)
                .map(|b| String::from_utf8_lossy(&b).chars().rev().take(300).collect::<String>().chars().rev().collect())
                .unwrap_or_default();
            let _ = std::fs::remove_file(&tmp_err);
            if let Some(st) = status {
                if !st.success() {
                    how = Some("abort".into());
                    err = format!("{st:?} {err}");
                }
            }
            let text = std::fs::read_to_string(&tmp).unwrap_or_default();
            let _ = std::fs::remove_file(&tmp);
            // a verdict "never came back" has to reproduce: in batches of some thousand children a handful were
            // killed for their time limit although they had written nothing at all, or had already written their
            // last record (not reproduced alone; the runtime is not involved in either case). A child that ran
            // into its limit is started once more; a scenario that really hangs does so again.
            // (measured under load: such a child is runnable, single-threaded and still reading its scenario
            // file after seconds of CPU time - the virtual machine stalls it, the code under test has not begun.)
            // A child that wrote nothing has not started its scenario - it is started again, up to four times; one
            // that wrote its scenario's last record has finished it, however long the process then took to leave.
            let nrec = text.lines().count();
            let ended = text.lines().any(|l| l.contains(&format!("\"ev\":\"{end_ev}\"")));
            if how.as_deref() == Some("hang") && ended {
                eprintln!("NOTE scenario {} had written its last record when its time limit passed: taken as finished", sc["id"]);
                how = None;
            }
            if how.as_deref() == Some("hang") && (attempt < 2 || (nrec == 0 && attempt < 4)) {
                eprintln!("NOTE scenario {} ran into its time limit ({nrec} record(s) written) and is run again", sc["id"]);
                continue;
            }
            break (status, how, err, text);
            };
            let _ = &status;
            if !text.contains(&format!("\"ev\":\"{reset_ev}\"")) {
                // the child died before writing anything: synthesise the reset record from the
                // scenario's own scalar fields (the drivers' reset records carry exactly those)
                let mut m = Map::new();
                if let Value::Object(o) = sc {
                    for (k, v) in o {
                        let flat = v.as_array().is_some_and(|a| a.iter().all(|x| x.is_number() || x.is_boolean() || x.is_string()));
                        if v.is_number() || v.is_boolean() || v.is_string() || flat {
                            m.insert(k.clone(), v.clone());
                        }
                    }
                }
                m.insert("ev".into(), json!(reset_ev));
                m.insert("scenario".into(), sc["id"].clone());
                m.insert("synthetic".into(), json!(true));
                m.insert("seq".into(), json!(0));
                m.insert("th".into(), json!(999));
                m.insert("t".into(), json!(0));
                text = format!("{}\n{}", Value::Object(m), text);
            }
            if let Some(h) = how {
                if !text.ends_with('\n') && !text.is_empty() {
                    // a partially written last line is dropped
                    if let Some(p) = text.rfind('\n') {
                        text.truncate(p + 1);
                    } else {
                        text.clear();
                    }
                }
                text.push_str(&format!("{}\n", json!({"ev": "died", "how": h, "msg": err, "scenario": sc["id"], "step": 0, "seq": 0, "th": 999})));
            }
            let has_end = text.lines().last().is_some_and(|l| l.contains(&format!("\"ev\":\"{end_ev}\"")));
            if !has_end {
                text.push_str(&format!("{}\n", json!({"ev": end_ev, "scenario": sc["id"], "synthetic": true, "seq": 0, "th": 999})));
            }
            results.lock().unwrap()[i] = Some(text);
        }));
    }
    for h in hs {
        let _ = h.join();
    }
    let mut f = OpenOptions::new().create(true).write(true).append(a.append).truncate(!a.append).open(&a.out).expect("open out");
    for t in results.lock().unwrap().iter().flatten() {
        let _ = f.write_all(t.as_bytes());
    }
}

pub fn mono_ns() -> u64 {
    static T0: OnceLock<Instant> = OnceLock::new();
    T0.get_or_init(Instant::now).elapsed().as_nanos() as u64
}
