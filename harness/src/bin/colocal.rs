//! Driver for coroutine-local storage (property C25): replays histories of spec/CoLocal.tla on
//! real coroutines (a `Coroutine` derefs to its `CoroutineLocal`), with drop-counting tokens.
use ocverif::*;
use open_coroutine_core::coroutine::suspender::Suspender;
use open_coroutine_core::coroutine::Coroutine;
use serde_json::{json, Value};
use std::sync::atomic::{AtomicBool, Ordering};
use std::time::Duration;

static RECORD_DROPS: AtomicBool = AtomicBool::new(true);

/// Values without drop glue (key k2): their destructor cannot be observed, the release of the memory they
/// are stored in can. The allocator counts live blocks of exactly their size.
#[derive(Debug, Clone, Copy)]
struct Plain {
    id: u64,
    tag: u64,
    _pad: [u8; 1237],
}
const PLAIN_SIZE: usize = std::mem::size_of::<Plain>();
static PLAIN_LIVE: std::sync::atomic::AtomicI64 = std::sync::atomic::AtomicI64::new(0);
struct Counting;
unsafe impl std::alloc::GlobalAlloc for Counting {
    unsafe fn alloc(&self, l: std::alloc::Layout) -> *mut u8 {
        if l.size() == PLAIN_SIZE {
            PLAIN_LIVE.fetch_add(1, Ordering::SeqCst);
        }
        std::alloc::System.alloc(l)
    }
    unsafe fn dealloc(&self, p: *mut u8, l: std::alloc::Layout) {
        if l.size() == PLAIN_SIZE {
            PLAIN_LIVE.fetch_sub(1, Ordering::SeqCst);
        }
        std::alloc::System.dealloc(p, l);
    }
}
#[global_allocator]
static ALLOC: Counting = Counting;
fn pv(t: Option<&Plain>) -> Value {
    match t {
        Some(t) => json!({"id": t.id, "tag": t.tag}),
        None => json!({"id": 0, "tag": 0}),
    }
}

#[derive(Debug)]
struct Tok {
    id: u64,
    tag: u64,
}
impl Drop for Tok {
    fn drop(&mut self) {
        if RECORD_DROPS.load(Ordering::SeqCst) {
            rec(json!({"ev": "dropped", "id": self.id}));
        }
    }
}
fn key(k: &str) -> &'static str {
    match k {
        "k1" => "k1",
        "k2" => "k2",
        _ => "k3",
    }
}
fn tv(t: Option<&Tok>) -> Value {
    match t {
        Some(t) => json!({"id": t.id, "tag": t.tag}),
        None => json!({"id": 0, "tag": 0}),
    }
}

fn run_scenario(sc: &Value) {
    let nco = sc["nco"].as_u64().unwrap() as usize;
    rec(json!({"ev": "lreset", "scenario": sc["id"], "nco": nco}));
    RECORD_DROPS.store(true, Ordering::SeqCst);
    let mut cos: Vec<Option<Coroutine<'static, (), (), ()>>> = (0..nco)
        .map(|i| {
            Some(
                Coroutine::new(Some(format!("local-{}-{}", sc["id"], i)), |_: &Suspender<(), ()>, ()| {}, None, None)
                    .expect("create coroutine"),
            )
        })
        .collect();
    let mut graveyard: Vec<Tok> = vec![];
    let plain0 = PLAIN_LIVE.load(Ordering::SeqCst);
    for op in sc["hist"].as_array().unwrap() {
        progress();
        let c = op["c"].as_u64().unwrap() as usize;
        let kind = op["op"].as_str().unwrap();
        if kind == "drop_co" {
            rec(json!({"ev": "drop_co", "co": c}));
            if op.get("unwinding").and_then(Value::as_bool).unwrap_or(false) {
                // the coroutine is owned by a frame that panics: it is dropped while the thread unwinds
                let owned = cos[c - 1].take();
                let _ = std::panic::catch_unwind(std::panic::AssertUnwindSafe(move || {
                    let _held = owned;
                    std::panic::panic_any("the owner of the coroutine panics");
                }));
            }
            drop(cos[c - 1].take());
            rec(json!({"ev": "mem", "live": PLAIN_LIVE.load(Ordering::SeqCst) - plain0}));
            continue;
        }
        let Some(co) = cos[c - 1].as_ref() else { continue };
        let k = key(op["k"].as_str().unwrap());
        if k == "k2" {
            // the key that holds values without drop glue
            match kind {
                "put" => {
                    let id = op["id"].as_u64().unwrap();
                    let old: Option<Plain> = co.put(k, Plain { id, tag: 0, _pad: [0; 1237] });
                    rec(json!({"ev": "put", "co": c, "key": k, "id": id, "ret": pv(old.as_ref()), "plain": true}));
                }
                "get" => {
                    let v: Option<&Plain> = co.get(k);
                    rec(json!({"ev": "get", "co": c, "key": k, "ret": pv(v)}));
                }
                "get_mut" => {
                    let v: Option<&mut Plain> = co.get_mut(k);
                    rec(json!({"ev": "get_mut", "co": c, "key": k, "ret": pv(v.as_deref())}));
                    if let Some(t) = v {
                        t.tag += 1;
                    }
                }
                "remove" => {
                    let old: Option<Plain> = co.remove(k);
                    rec(json!({"ev": "remove", "co": c, "key": k, "ret": pv(old.as_ref()), "plain": true}));
                }
                other => panic!("unknown op {other}"),
            }
            continue;
        }
        match kind {
            "put" => {
                let id = op["id"].as_u64().unwrap();
                let old: Option<Tok> = co.put(k, Tok { id, tag: 0 });
                rec(json!({"ev": "put", "co": c, "key": k, "id": id, "ret": tv(old.as_ref())}));
                graveyard.extend(old);
            }
            "get" => {
                let v: Option<&Tok> = co.get(k);
                rec(json!({"ev": "get", "co": c, "key": k, "ret": tv(v)}));
            }
            "get_mut" => {
                let v: Option<&mut Tok> = co.get_mut(k);
                rec(json!({"ev": "get_mut", "co": c, "key": k, "ret": tv(v.as_deref())}));
                if let Some(t) = v {
                    t.tag += 1;
                }
            }
            "remove" => {
                let old: Option<Tok> = co.remove(k);
                rec(json!({"ev": "remove", "co": c, "key": k, "ret": tv(old.as_ref())}));
                graveyard.extend(old);
            }
            other => panic!("unknown op {other}"),
        }
    }
    // the coroutines still alive are dropped before the end of the scenario
    for (i, slot) in cos.iter_mut().enumerate() {
        if slot.is_some() {
            rec(json!({"ev": "drop_co", "co": i + 1}));
            drop(slot.take());
            rec(json!({"ev": "mem", "live": PLAIN_LIVE.load(Ordering::SeqCst) - plain0}));
        }
    }
    rec(json!({"ev": "lend", "scenario": sc["id"]}));
    RECORD_DROPS.store(false, Ordering::SeqCst);
    drop(graveyard);
}

fn main() {
    let a = args();
    open_out(&a.out, a.append);
    std::panic::set_hook(Box::new(|_| {}));
    let scs = read_scenarios(&a.scenarios);
    start_watchdog(Duration::from_millis(3000));
    for (i, sc) in scs.iter().enumerate() {
        let i = i as u64;
        if i < a.from {
            continue;
        }
        set_position(i, 0);
        let r = std::panic::catch_unwind(std::panic::AssertUnwindSafe(|| run_scenario(sc)));
        if let Err(e) = r {
            rec(json!({"ev": "died", "how": "panic", "msg": panic_msg(&e), "scenario": sc["id"], "step": 0}));
            rec(json!({"ev": "lend", "scenario": sc["id"]}));
        }
    }
    arm_watchdog(false);
    flush();
}
