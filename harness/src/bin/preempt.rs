//! Driver for signal preemption (property C22; build with --features preemptive).
//! T scheduling threads, each with its own Scheduler: busy coroutines that compute for several
//! time slices without yielding (in the Running state, or inside a syscall state), quick coroutines
//! that are ready behind them, and many short coroutines that keep the monitor's notify set busy.
//! One process per scenario; a crash or hang of the process is data.
use ocverif::*;
use open_coroutine_core::common::constants::{SyscallName, SyscallState};
use open_coroutine_core::scheduler::{SchedulableCoroutine, Scheduler};
use serde_json::{json, Map, Value};
use std::time::{Duration, Instant};

static DONE: std::sync::atomic::AtomicU64 = std::sync::atomic::AtomicU64::new(0);
/// layout "steal": thread 2 starts to schedule (and to steal) only when thread 1's unpreemptible coroutine runs
static GO: std::sync::atomic::AtomicBool = std::sync::atomic::AtomicBool::new(true);
/// pthread id -> number of the scheduling thread (the monitor's `mon_sig` hook reports pthread ids)
static PTHREADS: std::sync::Mutex<Vec<(u64, u64)>> = std::sync::Mutex::new(Vec::new());

fn checksum(n: u64) -> u64 {
    let mut s = 0u64;
    for i in 0..n {
        s = s.wrapping_mul(6364136223846793005).wrapping_add(i ^ (s >> 13));
        std::hint::black_box(&mut s);
    }
    s
}

/// number of the scheduling thread this code runs on (0 = not a scheduling thread)
fn cur_sched() -> u64 {
    let p = unsafe { libc::pthread_self() } as u64;
    PTHREADS.lock().unwrap().iter().find(|x| x.0 == p).map_or(0, |x| x.1)
}

fn hook_map(mut m: Map<String, Value>) -> Option<Map<String, Value>> {
    match m.get("ev").and_then(Value::as_str) {
        // one record per scan of the monitor thread: proof that the monitor was scheduled by the OS
        Some("mon_scan") => return Some(m),
        // the monitor is about to send (mon_sig_b) / has sent (mon_sig) SIGURG to a scheduling thread
        Some("mon_sig") | Some("mon_sig_b") => {
            let p = m.get("pthread").and_then(Value::as_u64).unwrap_or(0);
            let own = PTHREADS.lock().unwrap().iter().find(|x| x.0 == p).map_or(0, |x| x.1);
            m.remove("pthread");
            m.insert("own".into(), json!(own));
            return Some(m);
        }
        Some("chg") => {}
        _ => return None,
    }
    let name = m.get("name").and_then(Value::as_str).unwrap_or("").to_string();
    let parts: Vec<&str> = name.split('-').collect();
    if parts.len() != 4 || parts[0] != "p" {
        return None;
    }
    if parts[3] == "short" || parts[3] == "storm" {
        return None;
    }
    let new = m["new"].as_str().unwrap_or("").to_string();
    let kind = new.split('(').next().unwrap_or("").to_string();
    m.clear();
    m.insert("ev".into(), json!("chg"));
    // `own` is the thread that created the coroutine (rec() stamps the executing thread as `th`)
    m.insert("own".into(), json!(parts[1].parse::<u64>().unwrap_or(0)));
    m.insert("co".into(), json!(parts[2].parse::<u64>().unwrap_or(0)));
    m.insert("on".into(), json!(cur_sched()));
    if kind == "Error" {
        m.insert("msg".into(), json!(new.clone()));
    }
    m.insert("new".into(), json!(kind));
    Some(m)
}

/// "typed": a coroutine whose resume argument or yielded value carries data (only one of the two is the unit type) computes
/// for several time slices between its suspension points on a plain thread. The preemption handler suspends the current
/// coroutine as one of type <(), ()>: it must leave any other coroutine alone, or invented values reach the resumer and
/// resume arguments reach the wrong suspension point (property C08: values cross the boundary unchanged).
fn run_typed(kind: &str, n: u64) {
    use open_coroutine_core::common::constants::CoroutineState;
    use open_coroutine_core::coroutine::Coroutine;
    let mut got: Vec<String> = vec![];
    let mut want: Vec<String> = vec![];
    if kind == "yield_only" {
        let mut co: Coroutine<(), i32, i32> = Coroutine::new(Some("typed-y".to_string()), move |s, ()| {
            for v in 1..=3 {
                std::hint::black_box(checksum(n));
                s.suspend_with(v * 11);
            }
            std::hint::black_box(checksum(n));
            42
        }, None, None).expect("coroutine");
        want = vec!["S33".into(); 0];
        want.extend(["S11", "S22", "S33", "C42"].iter().map(|x| (*x).to_string()));
        for _ in 0..40 {
            match co.resume() {
                Ok(CoroutineState::Suspend(v, _)) => got.push(format!("S{v}")),
                Ok(CoroutineState::Complete(r)) => { got.push(format!("C{r}")); break; }
                Ok(other) => { got.push(format!("{other}")); break; }
                Err(e) => { got.push(format!("E{e}")); break; }
            }
        }
    } else {
        // the body reports the arguments it received through its return value
        let mut co: Coroutine<i32, (), i32> = Coroutine::new(Some("typed-p".to_string()), move |s, first| {
            let mut acc = first;
            for _ in 0..3 {
                std::hint::black_box(checksum(n));
                let a = s.suspend_with(());
                acc = acc * 100 + a;
            }
            std::hint::black_box(checksum(n));
            acc
        }, None, None).expect("coroutine");
        want.extend(["S", "S", "S", "C1020304"].iter().map(|x| (*x).to_string()));
        let mut arg = 1;
        for _ in 0..40 {
            let r = co.resume_with(arg);
            arg += 1;
            match r {
                Ok(CoroutineState::Suspend((), _)) => got.push("S".into()),
                Ok(CoroutineState::Complete(r)) => { got.push(format!("C{r}")); break; }
                Ok(other) => { got.push(format!("{other}")); break; }
                Err(e) => { got.push(format!("E{e}")); break; }
            }
        }
    }
    rec(json!({"ev": "typed", "kind": kind, "got": got, "want": want}));
}

fn run_scenario(sc: &Value) {
    if let Some(kind) = sc.get("typed").and_then(Value::as_str) {
        rec(json!({"ev": "mreset", "scenario": sc["id"], "threads": 0, "busy": "typed"}));
        let t0 = Instant::now();
        let probe = 2_000_000u64;
        let _ = checksum(probe);
        let per_ms = probe as f64 / t0.elapsed().as_secs_f64() / 1000.0;
        run_typed(kind, (per_ms * 35.0) as u64);
        rec(json!({"ev": "mend", "scenario": sc["id"]}));
        flush();
        unsafe { libc::_exit(0) };
    }
    set_block_sigurg(true);
    install_hook_sink(Some(Box::new(hook_map)));
    let threads = sc["threads"].as_u64().unwrap();
    let shorts = sc["shorts"].as_u64().unwrap_or(0);
    let busy_kind = sc["busy"].as_str().unwrap_or("running").to_string();
    let sig_self = sc["sig_self"].as_bool().unwrap_or(false);
    // layout "steal" (two threads): thread 1 has the busy coroutine, a quick one and a third one that computes for
    // 70 ms inside a syscall state (it cannot be preempted); thread 2 has only a quick one. After its first slice
    // the busy coroutine waits behind the unpreemptible one and is stolen by thread 2, where it must be
    // preempted just the same.
    let steal = sc["steal"].as_bool().unwrap_or(false);
    // "storm": a coroutine goes in and out of a syscall state `storm` times; every return to Running runs the
    // monitor's listener - notify-set lock, blocker lock - on the coroutine's own stack, and SIGURG is delivered
    // right there: a handler that suspends the coroutine while it holds such a lock leaves the thread waiting
    // for itself (Monitor!DeliverInside)
    let storm = sc["storm"].as_u64().unwrap_or(0);
    let busy_ms = sc["busy_ms"].as_f64().unwrap_or(45.0);
    GO.store(!steal, std::sync::atomic::Ordering::SeqCst);
    rec(json!({"ev": "mreset", "scenario": sc["id"], "threads": threads, "busy": busy_kind}));
    // calibrate: iterations for about 45 ms of computation
    let t0 = Instant::now();
    let probe = 2_000_000u64;
    let _ = checksum(probe);
    let per_ms = probe as f64 / t0.elapsed().as_secs_f64() / 1000.0;
    let n = (per_ms * busy_ms) as u64;
    let n_block = (per_ms * 70.0) as u64;
    let expect = checksum(n);
    let mut hs = vec![];
    for th in 1..=threads {
        let busy_kind = busy_kind.clone();
        hs.push(std::thread::spawn(move || {
            PTHREADS.lock().unwrap().push((unsafe { libc::pthread_self() } as u64, th));
            let mut sch = Scheduler::new(format!("pre-{th}"), 128 * 1024);
            let mk = |idx: u64, kind: &str, f: Box<dyn FnOnce() -> Option<usize>>| {
                let co = SchedulableCoroutine::new(Some(format!("p-{th}-{idx}-{kind}")), move |_, ()| f(), None, None).expect("coroutine");
                co
            };
            let bk = busy_kind.clone();
            let busy = mk(1, "busy", Box::new(move || {
                let t0 = Instant::now();
                if bk == "syscall" {
                    // busy_b / busy_e are recorded while the coroutine is in the syscall state (a record made
                    // before the state change would let a legitimate preemption of the still Running coroutine
                    // look like one of a system call)
                    let co = SchedulableCoroutine::current().expect("current");
                    co.syscall((), SyscallName::write, SyscallState::Executing).expect("enter syscall");
                    rec(json!({"ev": "busy_b", "own": th, "co": 1, "kind": bk, "on": cur_sched()}));
                    // a late SIGURG (the monitor works on a snapshot of its set, so a signal for the node this
                    // coroutine removed when it entered the system call may still arrive): the handler must
                    // leave a coroutine in a syscall state alone. The driver delivers that signal itself.
                    if sig_self {
                        rec(json!({"ev": "sys_sig_b", "own": th}));
                        unsafe { libc::raise(libc::SIGURG) };
                        rec(json!({"ev": "sys_sig_e", "own": th}));
                    }
                    let s = checksum(n);
                    if sig_self {
                        rec(json!({"ev": "sys_sig_b", "own": th}));
                        unsafe { libc::raise(libc::SIGURG) };
                        rec(json!({"ev": "sys_sig_e", "own": th}));
                    }
                    rec(json!({"ev": "busy_e", "own": th, "co": 1, "ok": s == expect, "ms": t0.elapsed().as_millis() as u64}));
                    co.running().expect("leave syscall");
                } else {
                    rec(json!({"ev": "busy_b", "own": th, "co": 1, "kind": bk, "on": cur_sched()}));
                    let s = checksum(n);
                    rec(json!({"ev": "busy_e", "own": th, "co": 1, "ok": s == expect, "ms": t0.elapsed().as_millis() as u64}));
                }
                Some(1)
            }));
            if !steal || th == 1 {
                sch.submit_raw_co(busy).expect("submit");
            } else {
                drop(busy);
            }
            let quick = mk(2, "quick", Box::new(move || {
                rec(json!({"ev": "quick", "own": th, "co": 2}));
                Some(2)
            }));
            sch.submit_raw_co(quick).expect("submit");
            if storm > 0 {
                // the signal is delivered by the driver at the worst moment: inside CondvarBlocker::notify, with its
                // lock held, while the monitor's listener runs on this coroutine's stack (pause point)
                open_coroutine_core::common::verif::set_pause(Some(Box::new(|point| {
                    if point == "blocker_notify_locked"
                        && SchedulableCoroutine::current().is_some_and(|c| c.name().ends_with("-storm"))
                        && open_coroutine_core::scheduler::SchedulableSuspender::current().is_some()
                    {
                        unsafe { libc::raise(libc::SIGURG) };
                    }
                })));
                let stormer = mk(4, "storm", Box::new(move || {
                    let co = SchedulableCoroutine::current().expect("current");
                    for _ in 0..storm {
                        co.syscall((), SyscallName::write, SyscallState::Executing).expect("enter syscall");
                        co.running().expect("leave syscall");
                    }
                    rec(json!({"ev": "storm_done", "own": th}));
                    Some(4)
                }));
                sch.submit_raw_co(stormer).expect("submit");
            }
            if steal && th == 1 {
                let blocker = mk(3, "sysblock", Box::new(move || {
                    let co = SchedulableCoroutine::current().expect("current");
                    co.syscall((), SyscallName::write, SyscallState::Executing).expect("enter syscall");
                    GO.store(true, std::sync::atomic::Ordering::SeqCst);
                    std::hint::black_box(checksum(n_block));
                    co.running().expect("leave syscall");
                    Some(3)
                }));
                sch.submit_raw_co(blocker).expect("submit");
            }
            for i in 0..shorts {
                let c = mk(10 + i, "short", Box::new(move || {
                    std::hint::black_box(checksum(2000));
                    if let Some(s) = open_coroutine_core::scheduler::SchedulableSuspender::current() {
                        s.suspend();
                    }
                    Some(3)
                }));
                sch.submit_raw_co(c).expect("submit");
            }
            // schedulers share the process-wide ready queue and steal from each other: a thread keeps
            // scheduling until every coroutine of every thread has finished
            let t0 = Instant::now();
            let total = if steal { 4 } else { (2 + shorts + u64::from(storm > 0)) * threads };
            while steal && th != 1 && !GO.load(std::sync::atomic::Ordering::SeqCst) {
                std::thread::yield_now();
            }
            let mut done = 0;
            while DONE.load(std::sync::atomic::Ordering::SeqCst) < total && t0.elapsed() < Duration::from_secs(6) {
                if let Ok((_, results)) = sch.try_timed_schedule(Duration::from_millis(20)) {
                    done += results.len();
                    DONE.fetch_add(results.len() as u64, std::sync::atomic::Ordering::SeqCst);
                }
            }
            rec(json!({"ev": "thread_done", "th": th, "done": done, "all": DONE.load(std::sync::atomic::Ordering::SeqCst), "want": total}));
            std::mem::forget(sch);
        }));
    }
    for h in hs {
        if let Err(e) = h.join() {
            rec(json!({"ev": "died", "how": "panic", "msg": panic_msg(&e), "scenario": sc["id"], "step": 0}));
        }
    }
    rec(json!({"ev": "mend", "scenario": sc["id"]}));
    flush();
    unsafe { libc::_exit(0) };
}

fn main() {
    isolated_main("mreset", "mend", 15_000, 2, run_scenario);
}
