//! Driver for the coroutine lifecycle (properties C07, C08, C09 and the current-coroutine stack).
//! A scenario is a history of spec/Coroutine.tla: `resume` steps of the driver and body steps
//! per coroutine. The body of every real `Coroutine` interprets its own step list; a recording
//! listener logs every state change; the driver logs each resume call and its result.
use ocverif::*;
use open_coroutine_core::common::constants::{CoroutineState, SyscallName, SyscallState};
use open_coroutine_core::coroutine::listener::Listener;
use open_coroutine_core::coroutine::local::CoroutineLocal;
use open_coroutine_core::coroutine::suspender::Suspender;
use open_coroutine_core::coroutine::Coroutine;
use serde_json::{json, Value};
use std::sync::atomic::{AtomicU64, Ordering};
use std::time::Duration;

type Co = Coroutine<'static, usize, usize, usize>;
type St = CoroutineState<usize, usize>;

static FUT: AtomicU64 = AtomicU64::new(0);

fn ts_real(class: u64) -> u64 {
    match class {
        0 => 0,
        1 => 1,
        2 => FUT.load(Ordering::SeqCst),
        _ => u64::MAX,
    }
}
fn ts_class(ts: u64) -> u64 {
    if ts == 0 {
        0
    } else if ts == 1 {
        1
    } else if ts == FUT.load(Ordering::SeqCst) {
        2
    } else if ts == u64::MAX {
        3
    } else {
        9
    }
}
fn sys_name(n: &str) -> SyscallName {
    if n == "sleep" {
        SyscallName::sleep
    } else {
        SyscallName::recv
    }
}
fn sys_str(n: SyscallName) -> &'static str {
    match n {
        SyscallName::sleep => "sleep",
        SyscallName::recv => "recv",
        _ => "other",
    }
}
fn msg_num(m: &str) -> i64 {
    match m {
        "invalid memory reference" => 900_001,
        "stack overflow" => 900_002,
        _ => {
            // "p<number>" optionally followed by one of the two long fillers; anything else (a truncated or
            // otherwise altered message) is not the message the body panicked with
            let Some(rest) = m.strip_prefix('p') else { return -1 };
            let digits: String = rest.chars().take_while(char::is_ascii_digit).collect();
            let tail = &rest[digits.len()..];
            if tail.is_empty() || tail == long_filler("string_long") || tail == long_filler("string_utf8") {
                digits.parse().unwrap_or(-1)
            } else {
                -2
            }
        }
    }
}

/// long panic messages: 1000 ASCII bytes, or 200 three-byte characters (so that any byte offset a
/// careless slice might use falls inside a character for most message numbers)
fn long_filler(kind: &str) -> String {
    match kind {
        "string_long" => format!("-{}", "x".repeat(1000)),
        "string_utf8" => format!("-{}", "\u{20ac}".repeat(200)),
        _ => String::new(),
    }
}

#[inline(never)]
#[allow(unconditional_recursion)]
fn overflow(n: u64) -> u64 {
    let mut pad = [0u8; 4096];
    pad[(n % 4096) as usize] = n as u8;
    std::hint::black_box(&mut pad);
    overflow(n + 1) + u64::from(pad[(n % 4096) as usize])
}
fn st_json(s: St) -> Value {
    match s {
        CoroutineState::Ready => json!({"k": "Ready"}),
        CoroutineState::Running => json!({"k": "Running"}),
        CoroutineState::Suspend(v, ts) => json!({"k": "Suspend", "v": v, "ts": ts_class(ts)}),
        CoroutineState::Syscall(v, n, sub) => {
            let (subs, sts) = match sub {
                SyscallState::Executing => ("Executing", 0),
                SyscallState::Suspend(t) => ("Suspend", ts_class(t)),
                SyscallState::Callback => ("Callback", 0),
                SyscallState::Timeout => ("Timeout", 0),
            };
            json!({"k": "Syscall", "v": v, "n": sys_str(n), "sub": subs, "sts": sts})
        }
        CoroutineState::Cancelled => json!({"k": "Cancelled"}),
        CoroutineState::Complete(r) => json!({"k": "Complete", "r": r}),
        CoroutineState::Error(m) => json!({"k": "Error", "m": msg_num(m), "msg": m.chars().take(40).collect::<String>()}),
    }
}

#[derive(Debug)]
struct Recorder {
    co: u64,
}
impl Listener<usize, usize> for Recorder {
    fn on_state_changed(&self, _: &CoroutineLocal, old: St, new: St) {
        rec(json!({"ev": "chg", "co": self.co, "old": st_json(old), "new": st_json(new)}));
    }
    fn on_ready(&self, _: &CoroutineLocal, _: St) {
        rec(json!({"ev": "cb", "co": self.co, "which": "on_ready"}));
    }
    fn on_running(&self, _: &CoroutineLocal, _: St) {
        rec(json!({"ev": "cb", "co": self.co, "which": "on_running"}));
    }
    fn on_suspend(&self, _: &CoroutineLocal, _: St) {
        rec(json!({"ev": "cb", "co": self.co, "which": "on_suspend"}));
    }
    fn on_syscall(&self, _: &CoroutineLocal, _: St) {
        rec(json!({"ev": "cb", "co": self.co, "which": "on_syscall"}));
    }
    fn on_cancel(&self, _: &CoroutineLocal, _: St) {
        rec(json!({"ev": "cb", "co": self.co, "which": "on_cancel"}));
    }
    fn on_complete(&self, _: &CoroutineLocal, _: St, r: usize) {
        rec(json!({"ev": "cb", "co": self.co, "which": "on_complete", "r": r}));
    }
    fn on_error(&self, _: &CoroutineLocal, _: St, m: &str) {
        rec(json!({"ev": "cb", "co": self.co, "which": "on_error", "m": msg_num(m)}));
    }
}

/// a listener that panics in one callback kind: nothing else may change because of it
#[derive(Debug)]
struct Panicker {
    which: String,
}
impl Panicker {
    fn maybe(&self, w: &str) {
        if self.which == w {
            panic!("listener panic in {w}");
        }
    }
}
impl Listener<usize, usize> for Panicker {
    fn on_state_changed(&self, _: &CoroutineLocal, _: St, _: St) {
        self.maybe("on_state_changed");
    }
    fn on_ready(&self, _: &CoroutineLocal, _: St) {
        self.maybe("on_ready");
    }
    fn on_running(&self, _: &CoroutineLocal, _: St) {
        self.maybe("on_running");
    }
    fn on_suspend(&self, _: &CoroutineLocal, _: St) {
        self.maybe("on_suspend");
    }
    fn on_syscall(&self, _: &CoroutineLocal, _: St) {
        self.maybe("on_syscall");
    }
    fn on_cancel(&self, _: &CoroutineLocal, _: St) {
        self.maybe("on_cancel");
    }
    fn on_complete(&self, _: &CoroutineLocal, _: St, _: usize) {
        self.maybe("on_complete");
    }
    fn on_error(&self, _: &CoroutineLocal, _: St, _: &str) {
        self.maybe("on_error");
    }
}

fn body(co: u64, steps: Vec<Value>, s: &Suspender<usize, usize>, param: usize) -> usize {
    rec(json!({"ev": "body", "co": co, "got": param}));
    for st in steps {
        let a = st["a"].as_str().unwrap().to_string();
        match a.as_str() {
            "suspend" => {
                let v = st["v"].as_u64().unwrap() as usize;
                rec(json!({"ev": "step", "co": co, "a": "suspend", "v": v, "ts": 0}));
                let got = s.suspend_with(v);
                rec(json!({"ev": "body", "co": co, "got": got}));
            }
            "delay" => {
                let v = st["v"].as_u64().unwrap() as usize;
                let c = st["ts"].as_u64().unwrap();
                rec(json!({"ev": "step", "co": co, "a": "delay", "v": v, "ts": c}));
                let got = s.until_with(v, ts_real(c));
                rec(json!({"ev": "body", "co": co, "got": got}));
            }
            "cancel" => {
                rec(json!({"ev": "step", "co": co, "a": "cancel", "v": 0, "ts": 0}));
                s.cancel();
            }
            "sys_enter" => {
                rec(json!({"ev": "step", "co": co, "a": "sys_enter", "v": 0, "ts": 0}));
                let c = Co::current().expect("no current coroutine inside a body");
                let r = c.syscall(0, sys_name(st["n"].as_str().unwrap()), SyscallState::Executing);
                rec(json!({"ev": "sysr", "co": co, "a": "sys_enter", "ok": r.is_ok()}));
            }
            "sys_sub" => {
                rec(json!({"ev": "step", "co": co, "a": "sys_sub", "v": 0, "ts": 0}));
                let c = Co::current().expect("no current coroutine inside a body");
                let name = match c.state() {
                    CoroutineState::Syscall(_, n, _) => n,
                    _ => SyscallName::sleep,
                };
                let sub = match st["sub"].as_str().unwrap() {
                    "Executing" => SyscallState::Executing,
                    "Callback" => SyscallState::Callback,
                    "Timeout" => SyscallState::Timeout,
                    _ => SyscallState::Suspend(ts_real(st["sts"].as_u64().unwrap())),
                };
                let r = c.syscall(0, name, sub);
                rec(json!({"ev": "sysr", "co": co, "a": "sys_sub", "ok": r.is_ok()}));
            }
            "sys_other" => {
                rec(json!({"ev": "step", "co": co, "a": "sys_other", "v": 0, "ts": 0}));
                let c = Co::current().expect("no current coroutine inside a body");
                let was_syscall = matches!(c.state(), CoroutineState::Syscall(..));
                let name = match c.state() {
                    CoroutineState::Syscall(_, SyscallName::sleep, _) => SyscallName::recv,
                    _ => SyscallName::sleep,
                };
                let r = c.syscall(0, name, SyscallState::Executing);
                rec(json!({"ev": "sysr", "co": co, "a": "sys_other", "ok": r.is_ok() && was_syscall}));
            }
            "sys_exit" => {
                rec(json!({"ev": "step", "co": co, "a": "sys_exit", "v": 0, "ts": 0}));
                let c = Co::current().expect("no current coroutine inside a body");
                let r = c.running();
                rec(json!({"ev": "sysr", "co": co, "a": "sys_exit", "ok": r.is_ok()}));
            }
            "return" => {
                let r = st["r"].as_u64().unwrap() as usize;
                rec(json!({"ev": "step", "co": co, "a": "return", "v": r, "ts": 0}));
                return r;
            }
            "fault" => {
                let m = st["m"].as_u64().unwrap();
                rec(json!({"ev": "step", "co": co, "a": "fault", "v": m, "ts": 0}));
                flush();
                match st["kind"].as_str().unwrap() {
                    "null_write" => unsafe { std::ptr::write_volatile(std::ptr::null_mut::<u8>(), 1) },
                    "wild_read" => unsafe {
                        let _ = std::ptr::read_volatile(0xdead_0000usize as *const u8);
                    },
                    "overflow" => {
                        let _ = std::hint::black_box(overflow(0));
                    }
                    "foreign_stack" => {
                        // fault while the stack pointer is outside every segment of this coroutine
                        let layout = std::alloc::Layout::from_size_align(64 * 1024, 4096).unwrap();
                        let base = unsafe { std::alloc::alloc(layout) };
                        unsafe {
                            psm::on_stack(base, 64 * 1024, || std::ptr::write_volatile(std::ptr::null_mut::<u8>(), 1));
                        }
                    }
                    _ => {
                        // overflow inside a grown segment: no further growth is requested
                        let _ = Co::maybe_grow_with(usize::MAX / 2, 64 * 1024, || std::hint::black_box(overflow(0)));
                    }
                }
                rec(json!({"ev": "step", "co": co, "a": "survived_fault", "v": 0, "ts": 0}));
            }
            "panic" => {
                let m = st["m"].as_u64().unwrap();
                rec(json!({"ev": "step", "co": co, "a": "panic", "v": m, "ts": 0}));
                let kind = st["kind"].as_str().unwrap_or("str");
                if kind == "string" {
                    // a formatted payload: Box<String>
                    panic!("p{}", m);
                } else if kind == "string_long" || kind == "string_utf8" {
                    panic!("p{}{}", m, long_filler(kind));
                } else {
                    let lit: &'static str = Box::leak(format!("p{m}").into_boxed_str());
                    std::panic::panic_any(lit);
                }
            }
            other => panic!("unknown body step {other}"),
        }
    }
    // a program cut off by the model's bound: park for ever (the driver never resumes it)
    rec(json!({"ev": "step", "co": co, "a": "park", "v": 0, "ts": 3}));
    let _ = s.until_with(0, u64::MAX);
    0
}

fn run_scenario(sc: &Value) {
    FUT.store(open_coroutine_core::common::now() + 3_600_000_000_000, Ordering::SeqCst);
    let k = sc["k"].as_u64().unwrap();
    let lp = sc.get("lp").and_then(Value::as_str).map(str::to_string);
    rec(json!({"ev": "creset", "scenario": sc["id"], "k": k}));
    let hist = sc["hist"].as_array().unwrap();
    let mut cos: Vec<Co> = vec![];
    for c in 1..=k {
        let steps: Vec<Value> = hist
            .iter()
            .filter(|h| h["a"] != "resume" && h["c"].as_u64() == Some(c))
            .cloned()
            .collect();
        let mut co = Co::new(
            Some(format!("sc{}-co{}", sc["id"], c)),
            move |s, p| body(c, steps, s, p),
            None,
            None,
        )
        .expect("create coroutine");
        if let Some(w) = &lp {
            co.add_listener(Panicker { which: w.clone() });
        }
        co.add_listener(Recorder { co: c });
        cos.push(co);
    }
    for h in hist {
        if h["a"] != "resume" {
            continue;
        }
        let c = h["c"].as_u64().unwrap();
        let arg = h["arg"].as_u64().unwrap() as usize;
        progress();
        rec(json!({"ev": "resume_b", "co": c, "arg": arg}));
        let co = &mut cos[(c - 1) as usize];
        let r = std::panic::catch_unwind(std::panic::AssertUnwindSafe(|| co.resume_with(arg)));
        match r {
            Ok(Ok(s)) => rec(json!({"ev": "resume_e", "co": c, "ok": true, "st": st_json(s)})),
            Ok(Err(e)) => rec(json!({"ev": "resume_e", "co": c, "ok": false, "st": {"k": "Err"}, "err": e.to_string()})),
            Err(e) => rec(json!({"ev": "died", "how": "unwound", "msg": panic_msg(&e), "scenario": sc["id"], "step": 0})),
        }
        rec(json!({"ev": "state", "co": c, "st": st_json(cos[(c - 1) as usize].state())}));
        rec(json!({"ev": "cur", "some": Co::current().is_some(), "susp": Suspender::<usize, usize>::current().is_some()}));
    }
    if sc.get("post_sleep").and_then(Value::as_bool).unwrap_or(false) {
        // the resuming thread must continue normally: a hooked 1 ms sleep on this plain thread
        rec(json!({"ev": "post_b"}));
        flush();
        let t0 = mono_ns();
        let r = open_coroutine_core::syscall::usleep(None, 1000);
        rec(json!({"ev": "post_e", "ret": r, "ms": (mono_ns() - t0) / 1_000_000}));
    }
    rec(json!({"ev": "cend", "scenario": sc["id"]}));
    // coroutines that are still suspended are reset by Drop (force_reset)
    drop(cos);
}

fn main() {
    let a = args();
    open_out(&a.out, a.append);
    std::panic::set_hook(Box::new(|_| {}));
    let scs = read_scenarios(&a.scenarios);
    if scs.iter().any(|s| s.get("post_sleep").and_then(Value::as_bool).unwrap_or(false)) {
        open_coroutine_core::net::EventLoops::init(&open_coroutine_core::config::Config::single());
    }
    start_watchdog(Duration::from_millis(3000));
    for (i, sc) in scs.iter().enumerate() {
        let i = i as u64;
        if i < a.from {
            continue;
        }
        set_position(i, 0);
        // a fresh thread per scenario: the request stacks and the current stack are thread-local
        let sc2 = sc.clone();
        let h = std::thread::Builder::new()
            .stack_size(1 << 20)
            .spawn(move || {
                let r = std::panic::catch_unwind(std::panic::AssertUnwindSafe(|| run_scenario(&sc2)));
                if let Err(e) = r {
                    rec(json!({"ev": "died", "how": "panic", "msg": panic_msg(&e), "scenario": sc2["id"], "step": 0}));
                    rec(json!({"ev": "cend", "scenario": sc2["id"]}));
                }
            })
            .expect("spawn");
        let _ = h.join();
    }
    arm_watchdog(false);
    flush();
}
