//! Driver for stack growth (property C23): programs of nested `maybe_grow_with` calls with
//! returns and caught panics (histories of spec/StackGrowth.tla), run inside a coroutine or in a
//! plain thread with a small stack, followed by a deep recursion that only works if growth
//! decisions are still sound.
use ocverif::*;
use open_coroutine_core::common::constants::CoroutineState;
use open_coroutine_core::coroutine::suspender::Suspender;
use open_coroutine_core::coroutine::Coroutine;
use serde_json::{json, Map, Value};
use std::cell::Cell;
use std::time::Duration;

type Co = Coroutine<'static, (), (), ()>;

thread_local! {
    static CUR: Cell<usize> = const { Cell::new(0) };
    static LAST_HOOK_SEGS: Cell<i64> = const { Cell::new(-1) };
}

fn sp() -> usize {
    psm_sp()
}
#[inline(never)]
fn psm_sp() -> usize {
    let x = 0u8;
    std::ptr::from_ref(&x) as usize
}

fn co_segs() -> i64 {
    Co::current().map_or(-1, |c| c.stack_infos().len() as i64 - 1)
}

fn interp(steps: &[Value], level: u64, in_co: bool) {
    loop {
        let i = CUR.with(|c| {
            let v = c.get();
            c.set(v + 1);
            v
        });
        if i >= steps.len() {
            return;
        }
        progress();
        let st = &steps[i];
        match st["a"].as_str().unwrap() {
            "enter" => {
                let g = st["grow"].as_bool().unwrap();
                let catch = st["catch"].as_bool().unwrap();
                let red = if g { usize::MAX / 2 } else { 0 };
                let caller_sp = sp();
                rec(json!({"ev": "grow_b", "level": level + 1, "g": g, "catch": catch, "segs": if in_co { co_segs() } else { -1 }}));
                let call = || {
                    Co::maybe_grow_with(red, 64 * 1024, || {
                        let here = sp();
                        let on_new = here.abs_diff(caller_sp) > 16 * 1024;
                        let avail = if in_co { Co::current().map_or(0, |c| unsafe { c.remaining_stack() }) } else { 0 };
                        rec(json!({"ev": "cb", "level": level + 1, "on_new": on_new, "avail_ok": !in_co || !g || avail >= 32 * 1024,
                                   "segs": if in_co { co_segs() } else { -1 }}));
                        interp(steps, level + 1, in_co);
                        4242usize
                    })
                };
                if catch {
                    match std::panic::catch_unwind(std::panic::AssertUnwindSafe(call)) {
                        Ok(r) => rec(json!({"ev": "grow_e", "level": level + 1, "how": "ret", "value_ok": matches!(r, Ok(4242)),
                                            "segs": if in_co { co_segs() } else { -1 }})),
                        Err(_) => rec(json!({"ev": "grow_e", "level": level + 1, "how": "unwind", "value_ok": true,
                                             "segs": if in_co { co_segs() } else { -1 }})),
                    }
                } else {
                    let r = call();
                    rec(json!({"ev": "grow_e", "level": level + 1, "how": "ret", "value_ok": matches!(r, Ok(4242)),
                               "segs": if in_co { co_segs() } else { -1 }}));
                }
                if !in_co {
                    // probe: the hook at the entry of the next call reports the thread's segment count
                    let _ = Co::maybe_grow_with(0, 16 * 1024, || ());
                    rec(json!({"ev": "probe", "level": level, "segs": LAST_HOOK_SEGS.with(Cell::get)}));
                }
            }
            "deep" => {
                // 14 levels of 10 KiB frames: more than one 64 KiB segment, wherever the program stands
                rec(json!({"ev": "mdeep_b", "level": level}));
                let r = deep(14);
                rec(json!({"ev": "mdeep_e", "level": level, "r": r}));
            }
            "ret" => {
                if level == 0 {
                    continue;
                }
                return;
            }
            "panic" => {
                if level == 0 {
                    continue;
                }
                std::panic::panic_any("prog");
            }
            other => panic!("unknown step {other}"),
        }
    }
}

#[inline(never)]
fn deep(n: u64) -> u64 {
    // 10 KiB per frame, growth requested with the default red zone at every level
    let mut pad = [0u8; 10 * 1024];
    pad[(n % 1024) as usize] = n as u8;
    std::hint::black_box(&mut pad);
    if n == 0 {
        return u64::from(pad[0]);
    }
    Co::maybe_grow(|| deep(n - 1)).expect("allocate stack") + u64::from(pad[(n % 1024) as usize] & 1)
}

fn program(sc: &Value, in_co: bool) {
    let steps = sc["hist"].as_array().unwrap().clone();
    CUR.with(|c| c.set(0));
    interp(&steps, 0, in_co);
    let d = sc["deep"].as_u64().unwrap_or(0);
    if d > 0 {
        rec(json!({"ev": "deep_b", "depth": d}));
        let r = deep(d);
        rec(json!({"ev": "deep_e", "ok": true, "r": r}));
    }
}

fn main() {
    let argv: Vec<String> = std::env::args().collect();
    let a = args();
    let _ = argv;
    open_out(&a.out, a.append);
    std::panic::set_hook(Box::new(|_| {}));
    install_hook_sink(Some(Box::new(|m: Map<String, Value>| {
        if m.get("ev").and_then(Value::as_str) == Some("grow_thread") {
            LAST_HOOK_SEGS.with(|c| c.set(m["segs"].as_i64().unwrap_or(-1)));
            return Some(m);
        }
        None
    })));
    let scs = read_scenarios(&a.scenarios);
    start_watchdog(Duration::from_millis(3_000));
    for (i, sc) in scs.iter().enumerate() {
        let i = i as u64;
        if i < a.from {
            continue;
        }
        set_position(i, 0);
        let wh = sc["where"].as_str().unwrap().to_string();
        rec(json!({"ev": "greset", "scenario": sc["id"], "where": wh}));
        flush();
        let sc2 = sc.clone();
        let h = std::thread::Builder::new()
            .stack_size(256 * 1024)
            .spawn(move || {
                if wh == "thread" {
                    program(&sc2, false);
                } else {
                    let sc3 = sc2.clone();
                    let mut co: Co = Coroutine::new(
                        Some(format!("grow-{}", sc2["id"])),
                        move |_: &Suspender<(), ()>, ()| program(&sc3, true),
                        None,
                        None,
                    )
                    .expect("create coroutine");
                    let r = co.resume();
                    match r {
                        Ok(CoroutineState::Complete(())) => {}
                        Ok(CoroutineState::Error(m)) => rec(json!({"ev": "co_error", "msg": m})),
                        other => rec(json!({"ev": "co_error", "msg": format!("{other:?}")})),
                    }
                    rec(json!({"ev": "co_after", "segs": co.stack_infos().len() as i64 - 1}));
                }
            })
            .expect("spawn");
        if let Err(e) = h.join() {
            rec(json!({"ev": "died", "how": "panic", "msg": panic_msg(&e), "scenario": sc["id"], "step": 0}));
        }
        rec(json!({"ev": "gend", "scenario": sc["id"]}));
        flush();
    }
    arm_watchdog(false);
    flush();
}
