//! Driver for the named singletons (property C26).
//! modes: "stress"  barrier-released concurrent first lookups of a fresh name
//!        "forced"  a TLC behaviour of spec/Beans.tla (steps L1 / L3 per thread) is imposed through
//!                  the pause point between miss and insert
//!        "factory" first use of the factory itself: one child process per trial
use ocverif::*;
use open_coroutine_core::common::beans::BeanFactory;
use open_coroutine_core::common::verif;
use serde_json::{json, Value};
use std::collections::HashMap;
use std::sync::atomic::AtomicU64;
use std::sync::{Arc, Barrier, Condvar, Mutex};
use std::time::{Duration, Instant};

#[derive(Debug, Default)]
struct Bean {
    _x: AtomicU64,
}

thread_local! { static ROLE: std::cell::Cell<u64> = const { std::cell::Cell::new(0) }; }

/// turnstile that imposes an order of (thread, step) pairs
struct Turn {
    m: Mutex<TurnState>,
    cv: Condvar,
}
struct TurnState {
    steps: Vec<(u64, String)>,
    idx: usize,
    unreal: bool,
}
impl Turn {
    fn wait_for(&self, th: u64, step: &str) {
        let mut g = self.m.lock().unwrap();
        let t0 = Instant::now();
        loop {
            if g.unreal || g.idx >= g.steps.len() {
                return;
            }
            if g.steps[g.idx].0 == th && g.steps[g.idx].1 == step {
                return;
            }
            // not in the schedule any more (e.g. the model had a hit where the code missed)
            if !g.steps[g.idx..].iter().any(|(t, s)| *t == th && s == step) {
                return;
            }
            if t0.elapsed() > Duration::from_millis(400) {
                g.unreal = true;
                self.cv.notify_all();
                return;
            }
            g = self.cv.wait_timeout(g, Duration::from_millis(20)).unwrap().0;
        }
    }
    fn done(&self, th: u64, step: &str) {
        let mut g = self.m.lock().unwrap();
        if g.idx < g.steps.len() && g.steps[g.idx].0 == th && g.steps[g.idx].1 == step {
            g.idx += 1;
            self.cv.notify_all();
        }
    }
}

fn obj_index(map: &mut HashMap<usize, u64>, addr: usize) -> u64 {
    let n = map.len() as u64 + 1;
    *map.entry(addr).or_insert(n)
}

fn round(sc: &Value, name: String, threads: u64, turn: Option<Arc<Turn>>) {
    let barrier = Arc::new(Barrier::new(threads as usize));
    let mut hs = vec![];
    for t in 1..=threads {
        let name = name.clone();
        let barrier = barrier.clone();
        let turn = turn.clone();
        hs.push(std::thread::spawn(move || {
            ROLE.with(|r| r.set(t));
            if let Some(turn) = &turn {
                turn.wait_for(t, "L1");
            } else {
                barrier.wait();
            }
            let b: &Bean = BeanFactory::get_or_default(&name);
            if let Some(turn) = &turn {
                // a hit completes L1; a miss completed L1 at the pause point and L3 now
                turn.done(t, "L1");
                turn.done(t, "L3");
            }
            std::ptr::from_ref(b) as usize
        }));
    }
    let mut map = HashMap::new();
    for (i, h) in hs.into_iter().enumerate() {
        match h.join() {
            Ok(addr) => rec(json!({"ev": "lookup", "t": i + 1, "obj": obj_index(&mut map, addr)})),
            Err(e) => rec(json!({"ev": "died", "how": "panic", "msg": panic_msg(&e), "scenario": sc["id"], "step": 0})),
        }
    }
    let fin = BeanFactory::get_bean::<Bean>(&name).map_or(0, |b| obj_index(&mut map, std::ptr::from_ref(b) as usize));
    rec(json!({"ev": "final", "obj": fin}));
}

fn child(threads: u64) {
    // first use of the factory in this process, by all threads at once; threads that miss are held
    // at the pause point until everybody arrived (or 100 ms passed)
    let parked = Arc::new((Mutex::new(0u64), Condvar::new()));
    let p2 = parked.clone();
    verif::set_pause(Some(Box::new(move |point| {
        if point != "beans_instance_miss" {
            return;
        }
        let (m, cv) = &*p2;
        let mut g = m.lock().unwrap();
        *g += 1;
        cv.notify_all();
        let t0 = Instant::now();
        while *g < threads && t0.elapsed() < Duration::from_millis(100) {
            g = cv.wait_timeout(g, Duration::from_millis(10)).unwrap().0;
        }
    })));
    let barrier = Arc::new(Barrier::new(threads as usize));
    let hs: Vec<_> = (0..threads)
        .map(|_| {
            let barrier = barrier.clone();
            std::thread::spawn(move || {
                barrier.wait();
                let b: &Bean = BeanFactory::get_or_default("factory-trial");
                std::ptr::from_ref(b) as usize
            })
        })
        .collect();
    let mut map = HashMap::new();
    let mut objs = vec![];
    for h in hs {
        objs.push(obj_index(&mut map, h.join().unwrap()));
    }
    verif::set_pause(None);
    let fin = BeanFactory::get_bean::<Bean>("factory-trial").map_or(0, |b| obj_index(&mut map, std::ptr::from_ref(b) as usize));
    println!("{}", json!({"objs": objs, "fin": fin}));
}

fn main() {
    let argv: Vec<String> = std::env::args().collect();
    if argv.len() >= 3 && argv[1] == "--child" {
        child(argv[2].parse().unwrap());
        return;
    }
    let a = args();
    open_out(&a.out, a.append);
    std::panic::set_hook(Box::new(|_| {}));
    let scs = read_scenarios(&a.scenarios);
    start_watchdog(Duration::from_millis(10_000));
    let exe = std::env::current_exe().unwrap();
    for (i, sc) in scs.iter().enumerate() {
        let i = i as u64;
        if i < a.from {
            continue;
        }
        set_position(i, 0);
        let mode = sc["mode"].as_str().unwrap();
        let threads = sc["threads"].as_u64().unwrap();
        rec(json!({"ev": "breset", "scenario": sc["id"], "mode": mode, "threads": threads}));
        match mode {
            "stress" => round(sc, format!("bean-{}-{}", std::process::id(), sc["id"]), threads, None),
            "forced" => {
                let steps: Vec<(u64, String)> = sc["hist"]
                    .as_array()
                    .unwrap()
                    .iter()
                    .filter(|h| h["a"] == "L1" || h["a"] == "L3")
                    .map(|h| (h["th"].as_u64().unwrap(), h["a"].as_str().unwrap().to_string()))
                    .collect();
                let turn = Arc::new(Turn { m: Mutex::new(TurnState { steps, idx: 0, unreal: false }), cv: Condvar::new() });
                let t2 = turn.clone();
                verif::set_pause(Some(Box::new(move |point| {
                    if point != "beans_get_or_default_miss" {
                        return;
                    }
                    let th = ROLE.with(|r| r.get());
                    // reaching the pause point = the lookup missed: L1 is complete
                    t2.done(th, "L1");
                    t2.wait_for(th, "L3");
                })));
                round(sc, format!("bean-{}-{}", std::process::id(), sc["id"]), threads, Some(turn.clone()));
                verif::set_pause(None);
                let g = turn.m.lock().unwrap();
                rec(json!({"ev": "sched", "realised": !g.unreal && g.idx >= g.steps.len(), "idx": g.idx, "len": g.steps.len()}));
            }
            "factory" => {
                let out = std::process::Command::new(&exe).arg("--child").arg(threads.to_string()).output();
                match out {
                    Ok(o) if o.status.success() => {
                        let v: Value = serde_json::from_slice(&o.stdout).unwrap_or(json!({"objs": [], "fin": 0}));
                        for (k, ob) in v["objs"].as_array().unwrap().iter().enumerate() {
                            rec(json!({"ev": "lookup", "t": k + 1, "obj": ob}));
                        }
                        rec(json!({"ev": "final", "obj": v["fin"]}));
                    }
                    Ok(o) => rec(json!({"ev": "died", "how": "abort", "msg": format!("child exit {:?}", o.status), "scenario": sc["id"], "step": 0})),
                    Err(e) => panic!("cannot spawn child: {e}"),
                }
            }
            other => panic!("unknown mode {other}"),
        }
        rec(json!({"ev": "bend", "scenario": sc["id"]}));
    }
    arm_watchdog(false);
    flush();
}
