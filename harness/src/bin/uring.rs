//! Driver for hooked calls that go through io_uring (property C27; build with --features io_uring).
//! Callers are plain threads and coroutine tasks; every caller reads from its own pipe / socket, every
//! pipe is fed exactly one payload whose first byte and length identify the caller it belongs to, so a
//! completion that reaches another call is visible in the value returned and in the data.
//! Scenario kinds:
//!   "own"      N threads and M tasks blocked in read at the same time, fed in reverse order
//!   "error"    as "own", plus calls that complete with an error (bad descriptor, closed peer)
//!   "burst"    threads reading again and again from descriptors that are already readable (the completion
//!              is there at once: the race between the submission and the wait-table slot)
//!   "gap"      as "burst", with every thread caller held for a few milliseconds between handing its submission
//!              to the kernel and making its wait-table slot (pause point): the completion is reaped in between
//!   "again"    a task whose recv gives up on its receive time limit and that then receives again
//! One process per scenario; a crash or hang of the process is data.
use ocverif::*;
use open_coroutine_core::config::Config;
use open_coroutine_core::net::EventLoops;
use open_coroutine_core::syscall;
use serde_json::{json, Value};
use std::ffi::c_int;
use std::sync::atomic::{AtomicU64, Ordering};
use std::time::{Duration, Instant};

static BLOCKED: AtomicU64 = AtomicU64::new(0);

fn pipe() -> (c_int, c_int) {
    let mut fds = [0 as c_int; 2];
    assert_eq!(0, unsafe { libc::pipe(fds.as_mut_ptr()) });
    (fds[0], fds[1])
}
fn sockpair() -> (c_int, c_int) {
    let mut fds = [0 as c_int; 2];
    assert_eq!(0, unsafe { libc::socketpair(libc::AF_UNIX, libc::SOCK_STREAM, 0, fds.as_mut_ptr()) });
    (fds[0], fds[1])
}
/// payload of caller i: (i + 1) * 3 bytes, all equal to i + 1
fn payload(i: u64) -> Vec<u8> {
    vec![(i + 1) as u8; ((i + 1) * 3) as usize]
}
fn feed(wfd: c_int, data: &[u8]) {
    let n = unsafe { libc::write(wfd, data.as_ptr().cast(), data.len()) };
    assert_eq!(n, data.len() as isize);
}
fn errno() -> c_int {
    unsafe { *libc::__errno_location() }
}

/// one hooked read by caller `i`; records what came back
fn read_call(i: u64, kind: &str, fd: c_int, want_len: i64, want_tag: u8, want_errno: c_int) {
    let mut buf = [0u8; 128];
    rec(json!({"ev": "ucall_b", "caller": i, "kind": kind, "call": "read", "want": want_len, "want_errno": want_errno}));
    BLOCKED.fetch_add(1, Ordering::SeqCst);
    unsafe { *libc::__errno_location() = 0 };
    let n = syscall::read(None, fd, buf.as_mut_ptr().cast(), buf.len());
    let e = errno();
    let data_ok = n <= 0 || buf[..n as usize].iter().all(|b| *b == want_tag);
    rec(json!({"ev": "ucall_e", "caller": i, "ret": n, "errno": if n < 0 { e } else { 0 }, "data_ok": data_ok,
               "tag": if n > 0 { buf[0] } else { 0 }}));
}

fn run_scenario(sc: &Value) {
    let kind = sc["kind"].as_str().unwrap().to_string();
    let nthreads = sc["threads"].as_u64().unwrap_or(0);
    let ncos = sc["cos"].as_u64().unwrap_or(0);
    rec(json!({"ev": "ureset", "scenario": sc["id"], "kind": kind, "threads": nthreads, "cos": ncos}));
    unsafe { libc::signal(libc::SIGPIPE, libc::SIG_IGN) };
    // completion dispatch of the event loop (hook): token mapped to a small index, was a slot found
    static TOKENS: std::sync::Mutex<Vec<u64>> = std::sync::Mutex::new(Vec::new());
    install_hook_sink(Some(Box::new(|mut m| {
        if m.get("ev").and_then(Value::as_str) != Some("cqe") {
            return None;
        }
        let tok = m.get("token").and_then(Value::as_u64).unwrap_or(0);
        let mut g = TOKENS.lock().unwrap();
        let idx = g.iter().position(|x| *x == tok).unwrap_or_else(|| {
            g.push(tok);
            g.len() - 1
        });
        m.insert("token".into(), json!(idx + 1));
        let res = m.get("res").and_then(Value::as_i64).unwrap_or(0).clamp(-100_000, 100_000);
        m.insert("res".into(), json!(res));
        Some(m)
    })));
    let mut cfg = Config::single();
    cfg.set_event_loop_size(sc["loops"].as_u64().unwrap_or(1) as usize).set_max_size(32);
    EventLoops::init(&cfg);
    std::thread::sleep(Duration::from_millis(5));

    let mut joins = vec![];
    let mut handles = vec![];
    match kind.as_str() {
        "own" | "error" => {
            let total = nthreads + ncos;
            let mut wfds = vec![];
            for i in 0..total {
                let (r, w) = pipe();
                wfds.push(w);
                let is_thread = i < nthreads;
                let f = move || read_call(i, if is_thread { "thread" } else { "co" }, r, payload(i).len() as i64, (i + 1) as u8, 0);
                if is_thread {
                    joins.push(std::thread::spawn(f));
                } else {
                    handles.push(EventLoops::submit_task(None, move |_| { f(); Some(1) }, None, None));
                }
            }
            // wait until everybody sits in its read
            let t0 = Instant::now();
            while BLOCKED.load(Ordering::SeqCst) < total && t0.elapsed() < Duration::from_secs(3) {
                std::thread::sleep(Duration::from_millis(1));
            }
            std::thread::sleep(Duration::from_millis(30));
            if kind == "error" {
                // calls that complete with an error while the others are still blocked
                let bad = 1_000_000;
                let t = std::thread::spawn(move || read_call(100, "thread", bad, -1, 0, libc::EBADF));
                let _ = t.join();
                let h = EventLoops::submit_task(None, move |_| { read_call(101, "co", bad, -1, 0, libc::EBADF); Some(1) }, None, None);
                let _ = h.timeout_join(Duration::from_secs(3));
                std::mem::forget(h);
                // a write to a pipe whose reading end is closed
                let (r, w) = pipe();
                unsafe { libc::close(r) };
                let t = std::thread::spawn(move || {
                    let data = [9u8; 4];
                    rec(json!({"ev": "ucall_b", "caller": 102, "kind": "thread", "call": "write", "want": -1, "want_errno": libc::EPIPE}));
                    unsafe { *libc::__errno_location() = 0 };
                    let n = syscall::write(None, w, data.as_ptr().cast(), 4);
                    let e = errno();
                    rec(json!({"ev": "ucall_e", "caller": 102, "ret": n, "errno": if n < 0 { e } else { 0 }, "data_ok": true, "tag": 0}));
                });
                let _ = t.join();
            }
            // feed in reverse order
            for i in (0..total).rev() {
                feed(wfds[i as usize], &payload(i));
                std::thread::sleep(Duration::from_millis(3));
            }
        }
        "burst" | "gap" => {
            if kind == "gap" {
                open_coroutine_core::common::verif::set_pause(Some(Box::new(|point| {
                    if point == "operator_between_slot_and_submit" && open_coroutine_core::scheduler::SchedulableCoroutine::current().is_none() {
                        std::thread::sleep(Duration::from_millis(4));
                    }
                })));
            }
            let rounds = sc["rounds"].as_u64().unwrap_or(200);
            for i in 0..nthreads {
                joins.push(std::thread::spawn(move || {
                    let (r, w) = pipe();
                    for k in 0..rounds {
                        progress();
                        // the data is there before the read is submitted
                        feed(w, &payload(i));
                        let mut buf = [0u8; 128];
                        if k % 50 == 0 {
                            rec(json!({"ev": "ucall_b", "caller": i, "kind": "thread", "call": "read", "want": payload(i).len(), "want_errno": 0}));
                        }
                        let n = syscall::read(None, r, buf.as_mut_ptr().cast(), buf.len());
                        let ok = n == payload(i).len() as isize && buf[..n as usize].iter().all(|b| *b == (i + 1) as u8);
                        if k % 50 == 0 || !ok {
                            if k % 50 != 0 {
                                rec(json!({"ev": "ucall_b", "caller": i, "kind": "thread", "call": "read", "want": payload(i).len(), "want_errno": 0}));
                            }
                            rec(json!({"ev": "ucall_e", "caller": i, "ret": n, "errno": if n < 0 { errno() } else { 0 }, "data_ok": ok || n <= 0,
                                       "tag": if n > 0 { buf[0] } else { 0 }}));
                        }
                    }
                    rec(json!({"ev": "burst_done", "caller": i, "rounds": rounds}));
                }));
            }
        }
        "again" => {
            // a task whose first recv runs into a 40 ms receive time limit; the peer then writes twice and the
            // task receives twice: each recv must return the bytes that were next in the stream
            let (a, b) = sockpair();
            let tv = libc::timeval { tv_sec: 0, tv_usec: 40_000 };
            let _ = syscall::setsockopt(None, a, libc::SOL_SOCKET, libc::SO_RCVTIMEO, std::ptr::from_ref(&tv).cast(), size_of::<libc::timeval>() as u32);
            handles.push(EventLoops::submit_task(None, move |_| {
                let mut buf = [0u8; 128];
                rec(json!({"ev": "ucall_b", "caller": 0, "kind": "co", "call": "recv", "want": -1, "want_errno": -1}));
                unsafe { *libc::__errno_location() = 0 };
                let n = syscall::recv(None, a, buf.as_mut_ptr().cast(), buf.len(), 0);
                rec(json!({"ev": "ucall_e", "caller": 0, "ret": n, "errno": if n < 0 { errno() } else { 0 }, "data_ok": true, "tag": 0, "timeout": true}));
                for k in 1..=2u64 {
                    rec(json!({"ev": "ucall_b", "caller": 0, "kind": "co", "call": "recv", "want": payload(k).len(), "want_errno": 0}));
                    let n = syscall::recv(None, a, buf.as_mut_ptr().cast(), payload(k).len(), 0);
                    let ok = n <= 0 || buf[..n as usize].iter().all(|x| *x == (k + 1) as u8);
                    rec(json!({"ev": "ucall_e", "caller": 0, "ret": n, "errno": if n < 0 { errno() } else { 0 }, "data_ok": ok, "tag": if n > 0 { buf[0] } else { 0 }}));
                }
                Some(1)
            }, None, None));
            std::thread::sleep(Duration::from_millis(120));
            feed(b, &payload(1));
            std::thread::sleep(Duration::from_millis(60));
            feed(b, &payload(2));
        }
        other => panic!("unknown scenario kind {other}"),
    }
    let t0 = Instant::now();
    for j in joins {
        // a caller that never comes back is a lost completion: leave it to the scenario's time limit
        // (a read through the ring completes at the event loop's next round, up to 10 ms later: bursts need time)
        let limit = Duration::from_secs(8) + Duration::from_millis(20 * sc["rounds"].as_u64().unwrap_or(0));
        while !j.is_finished() && t0.elapsed() < limit {
            std::thread::sleep(Duration::from_millis(2));
        }
        if j.is_finished() {
            if let Err(e) = j.join() {
                rec(json!({"ev": "died", "how": "panic", "msg": panic_msg(&e), "scenario": sc["id"], "step": 0}));
            }
        } else {
            rec(json!({"ev": "died", "how": "hang", "msg": "a thread never came back from its hooked call", "scenario": sc["id"], "step": 0}));
        }
    }
    for h in &handles {
        let r = h.timeout_join(Duration::from_secs(4));
        if !matches!(r, Ok(Ok(Some(1)))) {
            rec(json!({"ev": "died", "how": "hang", "msg": format!("a task never came back from its hooked call: {r:?}"), "scenario": sc["id"], "step": 0}));
        }
    }
    std::mem::forget(handles);
    rec(json!({"ev": "uend", "scenario": sc["id"]}));
    flush();
    unsafe { libc::_exit(0) };
}

fn main() {
    isolated_main("ureset", "uend", 20_000, 4, run_scenario);
}
