//! Driver for the time / slicing helpers (property C28). Cases come from spec/TimeHelpers.tla
//! (every value for word size 4) and are executed on the real functions at scaled arguments.
use ocverif::*;
use open_coroutine_core::common::{get_slices, get_timeout_time, now};
use serde_json::{json, Value};
use std::time::Duration;

const K64: u64 = 0x1111_1111_1111_1111; // 15 * K64 == u64::MAX

fn limit_case(sec: i64, usec: i64, recv: bool) -> Value {
    unsafe {
        let mut fds = [0i32; 2];
        assert_eq!(0, libc::socketpair(libc::AF_UNIX, libc::SOCK_STREAM, 0, fds.as_mut_ptr()));
        let tv = libc::timeval { tv_sec: sec, tv_usec: usec };
        let name = if recv { libc::SO_RCVTIMEO } else { libc::SO_SNDTIMEO };
        let rc = libc::setsockopt(fds[0], libc::SOL_SOCKET, name, std::ptr::from_ref(&tv).cast(), size_of::<libc::timeval>() as u32);
        let mut got: libc::timeval = std::mem::zeroed();
        let mut len = size_of::<libc::timeval>() as u32;
        let rc2 = libc::getsockopt(fds[0], libc::SOL_SOCKET, name, std::ptr::from_mut(&mut got).cast(), &mut len);
        let r = if recv {
            open_coroutine_core::syscall::recv_time_limit(fds[0])
        } else {
            open_coroutine_core::syscall::send_time_limit(fds[0])
        };
        // the descriptors stay open until the process exits: the time-limit cache is keyed by
        // descriptor number (its behaviour under reuse is property C19, not C28)
        // big-integer mirror of the one-line specification, on the kernel's own value
        let exact: u128 = (got.tv_sec as u128) * 1_000_000_000u128 + (got.tv_usec as u128) * 1_000u128;
        let mirror: u64 = if exact == 0 { u64::MAX } else { u64::try_from(exact).unwrap_or(u64::MAX) };
        json!({"ev": "limit", "recv": recv, "set_sec": sec, "set_usec": usec, "set_rc": rc, "get_rc": rc2,
               "ksec": got.tv_sec.to_string(), "kusec": got.tv_usec, "zero": got.tv_sec == 0 && got.tv_usec == 0,
               "unlimited": r == u64::MAX, "matches": r == mirror, "result": r.to_string()})
    }
}

fn run_case(c: &Value) {
    let f = c["fn"].as_str().unwrap();
    let a = c["a"].as_u64().unwrap();
    let b = c["b"].as_u64().unwrap_or(0);
    match f {
        "deadline" => {
            // a in 0..=16; 16 means "more nanoseconds than u64 holds"
            let fam = c.get("fam").and_then(Value::as_str).unwrap_or("k64");
            let d = if a > 15 {
                if fam == "k64" { Duration::MAX } else { Duration::from_secs(u64::MAX / 1_000_000_000 + 1 + b) }
            } else {
                Duration::from_nanos(a * K64)
            };
            let before = now();
            let r = get_timeout_time(d);
            let after = now();
            let dn = u64::try_from(d.as_nanos()).unwrap_or(u64::MAX);
            let window_ok = r == u64::MAX || (a <= 15 && r >= dn && r - dn >= before && r - dn <= after);
            rec(json!({"ev": "deadline", "a": a, "fam": fam, "sat": r == u64::MAX, "window_ok": window_ok,
                       "nowlo": before / K64, "nowhi": after / K64 + 1, "result": r.to_string()}));
        }
        "slices" => {
            let fam = c.get("fam").and_then(Value::as_str).unwrap_or("k64");
            let (total, slice, unit): (Duration, Duration, u128) = if fam == "k64" {
                (Duration::from_nanos(a * K64), Duration::from_nanos(b * K64), u128::from(K64))
            } else {
                // whole seconds up to u64::MAX seconds: far beyond u64 nanoseconds
                let u = u64::MAX / 15;
                (Duration::from_secs(u * a), Duration::from_secs(u * b), u128::from(u) * 1_000_000_000)
            };
            let v = get_slices(total, slice);
            let pieces: Vec<i64> = v
                .iter()
                .map(|p| if p.as_nanos() % unit == 0 { (p.as_nanos() / unit) as i64 } else { -1 })
                .collect();
            rec(json!({"ev": "slices", "a": a, "b": b, "fam": fam, "pieces": pieces}));
        }
        "limit" => {
            rec(limit_case(c["sec"].as_i64().unwrap(), c["usec"].as_i64().unwrap(), c["recv"].as_bool().unwrap()));
        }
        other => panic!("unknown fn {other}"),
    }
}

fn main() {
    let a = args();
    open_out(&a.out, a.append);
    std::panic::set_hook(Box::new(|_| {}));
    let scs = read_scenarios(&a.scenarios);
    start_watchdog(Duration::from_millis(5000));
    for (i, sc) in scs.iter().enumerate() {
        let i = i as u64;
        if i < a.from {
            continue;
        }
        set_position(i, 0);
        rec(json!({"ev": "hreset", "scenario": sc["id"]}));
        for c in sc["cases"].as_array().unwrap() {
            progress();
            let r = std::panic::catch_unwind(std::panic::AssertUnwindSafe(|| run_case(c)));
            if let Err(e) = r {
                rec(json!({"ev": "died", "how": "panic", "msg": format!("{} on {}", panic_msg(&e), c), "scenario": sc["id"], "step": 0}));
            }
        }
        rec(json!({"ev": "hend", "scenario": sc["id"]}));
    }
    arm_watchdog(false);
    flush();
}
