//! Driver for readiness interest (C21) and readiness dispatch (C20), one process per scenario.
//! kind "interest": histories of spec/Selector.tla (wait / del on a given loop, close) executed by
//!   one agent task pinned to each event loop; after every operation the OS registrations of every
//!   loop's epoll instance are read from /proc/self/fdinfo.
//! kind "ready": tasks block in the hooked recv on real sockets, the main thread writes to the
//!   peers; state-change hook events show whether a task was woken by the readiness event
//!   (Syscall(.., Callback)) or by its periodic wait timeout (Syscall(.., Timeout)).
use ocverif::*;
use open_coroutine_core::config::Config;
use open_coroutine_core::net::EventLoops;
use open_coroutine_core::scheduler::SchedulableSuspender;
use open_coroutine_core::syscall;
use serde_json::{json, Map, Value};
use std::collections::{HashMap, VecDeque};
use std::ffi::c_int;
use std::sync::atomic::{AtomicBool, AtomicU64, Ordering};
use std::sync::Mutex;
use std::time::{Duration, Instant};

static CMDS: Mutex<Vec<VecDeque<Value>>> = Mutex::new(Vec::new());
static DONE: AtomicU64 = AtomicU64::new(0);
static AGENTS: Mutex<Vec<bool>> = Mutex::new(Vec::new());
static QUIT: AtomicBool = AtomicBool::new(false);
static CO2TASK: Mutex<Option<HashMap<u64, u64>>> = Mutex::new(None);

fn loop_of_thread() -> usize {
    std::thread::current().name().and_then(|n| n.strip_prefix("open-coroutine-event-loop-")).and_then(|n| n.strip_suffix("-thread"))
        .and_then(|n| n.parse::<usize>().ok()).map_or(0, |x| x + 1)
}

fn epoll_fds() -> Vec<c_int> {
    let mut v = vec![];
    for e in std::fs::read_dir("/proc/self/fd").unwrap().flatten() {
        if let Ok(t) = std::fs::read_link(e.path()) {
            if t.to_string_lossy().contains("eventpoll") {
                if let Ok(n) = e.file_name().to_string_lossy().parse::<c_int>() {
                    v.push(n);
                }
            }
        }
    }
    v.sort_unstable();
    v
}

/// registrations of one epoll instance: fd -> event mask
fn fdinfo(ep: c_int) -> HashMap<c_int, u32> {
    let mut m = HashMap::new();
    if let Ok(s) = std::fs::read_to_string(format!("/proc/self/fdinfo/{ep}")) {
        for line in s.lines() {
            if let Some(rest) = line.strip_prefix("tfd:") {
                let parts: Vec<&str> = rest.split_whitespace().collect();
                if parts.len() >= 3 {
                    if let (Ok(fd), Ok(ev)) = (parts[0].parse::<c_int>(), u32::from_str_radix(parts[2], 16)) {
                        m.insert(fd, ev);
                    }
                }
            }
        }
    }
    m
}

/// the tokens (epoll `data`) and event masks the kernel holds for `fd`, per epoll instance (the i-th instance belongs to loop i)
fn kernel_tokens(fd: c_int) -> Vec<(usize, u64, u32)> {
    let mut v = vec![];
    for (li, ep) in epoll_fds().iter().enumerate() {
        if let Ok(s) = std::fs::read_to_string(format!("/proc/self/fdinfo/{ep}")) {
            for line in s.lines() {
                if let Some(rest) = line.strip_prefix("tfd:") {
                    let parts: Vec<&str> = rest.split_whitespace().collect();
                    // tfd: <fd> events: <mask> data: <token> ...
                    if parts.len() >= 5 && parts[0].parse::<c_int>().ok() == Some(fd) {
                        if let Ok(k) = u64::from_str_radix(parts[4], 16) {
                            v.push((li + 1, k, u32::from_str_radix(parts[2], 16).unwrap_or(0)));
                        }
                    }
                }
            }
        }
    }
    v
}

fn snapshot(eps: &[c_int], slots: &HashMap<u64, c_int>) {
    let mut regs = vec![];
    for (li, ep) in eps.iter().enumerate() {
        let info = fdinfo(*ep);
        let mut ks: Vec<(&u64, &c_int)> = slots.iter().collect();
        ks.sort();
        for (slot, fd) in ks {
            let ev = info.get(fd).copied().unwrap_or(0);
            regs.push(json!({"loop": li + 1, "fd": slot, "r": ev & 0x1 != 0, "w": ev & 0x4 != 0}));
        }
    }
    rec(json!({"ev": "snap", "regs": regs}));
}

fn agent() -> Option<usize> {
    // worker coroutines migrate between loops (work stealing), so an agent serves the loop it is on
    // right now; there are several agents, and commands for a loop wait until one of them is there
    rec(json!({"ev": "agent", "loop": loop_of_thread()}));
    loop {
        if QUIT.load(Ordering::SeqCst) {
            return Some(1);
        }
        let me = loop_of_thread();
        if me == 0 {
            return Some(0);
        }
        {
            let mut a = AGENTS.lock().unwrap();
            if me <= a.len() {
                a[me - 1] = true;
            }
        }
        let cmd = CMDS.lock().unwrap()[me - 1].pop_front();
        if let Some(c) = cmd {
            let fd = c["realfd"].as_i64().unwrap() as c_int;
            rec(json!({"ev": "op", "op": c["op"], "loop": me, "fd": c["fd"], "kind": c.get("kind").cloned().unwrap_or(json!("")),
                       "kinds": c.get("kinds").cloned().unwrap_or(json!([])), "asked_loop": c["loop"]}));
            let r = match c["op"].as_str().unwrap() {
                "wait" => {
                    if c["kind"] == "R" {
                        EventLoops::wait_read_event(fd, Some(Duration::from_millis(1)))
                    } else {
                        EventLoops::wait_write_event(fd, Some(Duration::from_millis(1)))
                    }
                }
                _ => {
                    let ks: Vec<&str> = c["kinds"].as_array().unwrap().iter().map(|x| x.as_str().unwrap()).collect();
                    if ks.len() == 2 { EventLoops::del_event(fd) } else if ks[0] == "R" { EventLoops::del_read_event(fd) } else { EventLoops::del_write_event(fd) }
                }
            };
            rec(json!({"ev": "op_done", "loop": me, "ok": r.is_ok(), "on": loop_of_thread()}));
            DONE.fetch_add(1, Ordering::SeqCst);
        } else if let Some(s) = SchedulableSuspender::current() {
            s.delay(Duration::from_millis(1));
        }
    }
}

fn interest(sc: &Value) {
    let loops = sc["loops"].as_u64().unwrap() as usize;
    *CMDS.lock().unwrap() = (0..loops).map(|_| VecDeque::new()).collect();
    *AGENTS.lock().unwrap() = vec![false; loops];
    let eps = epoll_fds();
    rec(json!({"ev": "epolls", "n": eps.len()}));
    // one agent per loop: keep submitting until every loop has one
    let t0 = Instant::now();
    let mut handles = vec![];
    for _ in 0..(3 * loops) {
        handles.push(EventLoops::submit_task(None, |_| agent(), None, None));
    }
    while AGENTS.lock().unwrap().iter().any(|x| !*x) && t0.elapsed() < Duration::from_secs(10) {
        std::thread::sleep(Duration::from_millis(2));
    }
    let mut slots: HashMap<u64, c_int> = HashMap::new();
    let mut peers: HashMap<u64, c_int> = HashMap::new();
    for slot in 1..=2u64 {
        let mut fds = [0 as c_int; 2];
        unsafe { libc::socketpair(libc::AF_UNIX, libc::SOCK_STREAM, 0, fds.as_mut_ptr()) };
        slots.insert(slot, fds[0]);
        peers.insert(slot, fds[1]);
    }
    for h in sc["hist"].as_array().unwrap() {
        let op = h["op"].as_str().unwrap();
        match op {
            "wait" | "del" => {
                let l = h["loop"].as_u64().unwrap() as usize;
                let slot = h["fd"].as_u64().unwrap();
                let mut c = h.clone();
                c["realfd"] = json!(slots[&slot]);
                let before = DONE.load(Ordering::SeqCst);
                CMDS.lock().unwrap()[l - 1].push_back(c);
                let t1 = Instant::now();
                let mut extra = 0;
                while DONE.load(Ordering::SeqCst) == before && t1.elapsed() < Duration::from_secs(9) {
                    std::thread::sleep(Duration::from_millis(1));
                    // agents are worker coroutines and migrate between the loops: if none has turned up on the loop
                    // the operation names, more agents are started (their placement is round robin)
                    if t1.elapsed() > Duration::from_millis(1500 * (extra + 1)) && extra < 4 {
                        extra += 1;
                        for _ in 0..loops {
                            handles.push(EventLoops::submit_task(None, |_| agent(), None, None));
                        }
                        rec(json!({"ev": "agent", "loop": 0}));
                    }
                }
                if DONE.load(Ordering::SeqCst) == before {
                    rec(json!({"ev": "died", "how": "hang", "msg": "agent did not execute the operation", "scenario": sc["id"], "step": 0}));
                }
            }
            "close" => {
                let slot = h["fd"].as_u64().unwrap();
                rec(json!({"ev": "op", "op": "close", "loop": 0, "fd": slot, "kind": "", "kinds": []}));
                let fd = slots[&slot];
                let r = syscall::close(None, fd);
                unsafe { libc::close(peers[&slot]) };
                // the number is reused at once by a new socket
                let mut fds = [0 as c_int; 2];
                unsafe { libc::socketpair(libc::AF_UNIX, libc::SOCK_STREAM, 0, fds.as_mut_ptr()) };
                rec(json!({"ev": "op_done", "loop": 0, "ok": r == 0, "on": 0, "reused": fds[0] == fd || fds[1] == fd}));
                slots.insert(slot, fds[0]);
                peers.insert(slot, fds[1]);
            }
            _ => continue,
        }
        snapshot(&eps, &slots);
    }
    QUIT.store(true, Ordering::SeqCst);
    std::mem::forget(handles);
}

/// kind "race" (spec/SelectorRace.tla): two operations on one descriptor's interest on one selector at the same
/// time. Operation A is made by a task on the event-loop thread and is held for 25 ms between its change of the
/// kernel's registration and its update of the records (pause points in the selector); operation B is made by
/// this plain thread in between - what a hooked call of a thread does while a coroutine uses the same socket.
fn race(sc: &Value) {
    static GATE: AtomicBool = AtomicBool::new(false);
    static FIRST: AtomicBool = AtomicBool::new(true);
    static ADONE: AtomicBool = AtomicBool::new(false);
    let eps = epoll_fds();
    rec(json!({"ev": "epolls", "n": eps.len()}));
    let mut fds = [0 as c_int; 2];
    unsafe { libc::socketpair(libc::AF_UNIX, libc::SOCK_STREAM, 0, fds.as_mut_ptr()) };
    let fd = fds[0];
    let mut slots: HashMap<u64, c_int> = HashMap::new();
    slots.insert(1, fd);
    fn perform(op: &str, fd: c_int) -> bool {
        let kind = if op.ends_with('R') { "R" } else { "W" };
        if op.starts_with("add") {
            rec(json!({"ev": "op", "op": "wait", "loop": 1, "fd": 1, "kind": kind, "kinds": []}));
            let r = if kind == "R" { EventLoops::wait_read_event(fd, Some(Duration::from_millis(1))) } else { EventLoops::wait_write_event(fd, Some(Duration::from_millis(1))) };
            r.is_ok()
        } else {
            rec(json!({"ev": "op", "op": "del", "loop": 1, "fd": 1, "kind": "", "kinds": [kind]}));
            let r = if kind == "R" { EventLoops::del_read_event(fd) } else { EventLoops::del_write_event(fd) };
            r.is_ok()
        }
    }
    // the registration the race starts from (made on the loop, one interest after the other)
    for k in sc["init"].as_array().unwrap() {
        let op = format!("add{}", k.as_str().unwrap());
        let h = EventLoops::submit_task(None, move |_| {
            let ok = perform(&op, fd);
            rec(json!({"ev": "op_done", "loop": 1, "ok": ok, "on": loop_of_thread()}));
            Some(1)
        }, None, None);
        let _ = h.timeout_join(Duration::from_secs(3));
        std::mem::forget(h);
        snapshot(&eps, &slots);
    }
    open_coroutine_core::common::verif::set_pause(Some(Box::new(|point| {
        if (point == "selector_between_register_and_record" || point == "selector_between_reregister_and_record")
            && loop_of_thread() != 0 && FIRST.swap(false, Ordering::SeqCst)
        {
            GATE.store(true, Ordering::SeqCst);
            std::thread::sleep(Duration::from_millis(25));
        }
    })));
    let a = sc["a"].as_str().unwrap().to_string();
    let b = sc["b"].as_str().unwrap().to_string();
    let h = EventLoops::submit_task(None, move |_| {
        let ok = perform(&a, fd);
        rec(json!({"ev": "op_done", "loop": 1, "ok": ok, "on": loop_of_thread(), "who": "a"}));
        ADONE.store(true, Ordering::SeqCst);
        Some(1)
    }, None, None);
    let t0 = Instant::now();
    while !GATE.load(Ordering::SeqCst) && !ADONE.load(Ordering::SeqCst) && t0.elapsed() < Duration::from_millis(1500) {
        std::thread::sleep(Duration::from_micros(200));
    }
    rec(json!({"ev": "race", "held": GATE.load(Ordering::SeqCst)}));
    let ok = perform(&b, fd);
    rec(json!({"ev": "op_done", "loop": 1, "ok": ok, "on": 0, "who": "b"}));
    let _ = h.timeout_join(Duration::from_secs(3));
    std::mem::forget(h);
    open_coroutine_core::common::verif::set_pause(None);
    snapshot(&eps, &slots);
}

fn hook_map(m: Map<String, Value>) -> Option<Map<String, Value>> {
    let ev = m.get("ev").and_then(Value::as_str).unwrap_or("").to_string();
    match ev.as_str() {
        "task_run_b" => {
            let name = m.get("task").and_then(Value::as_str).unwrap_or("");
            let t: u64 = name.strip_prefix('t').and_then(|x| x.split('-').next()).and_then(|x| x.parse().ok()).unwrap_or(0);
            let co = m.get("co").and_then(Value::as_u64).unwrap_or(0);
            if t != 0 {
                CO2TASK.lock().unwrap().get_or_insert_with(HashMap::new).insert(co, t);
            }
            None
        }
        "chg" => {
            let id = m.get("id").and_then(Value::as_u64).unwrap_or(0);
            let t = CO2TASK.lock().unwrap().as_ref().and_then(|x| x.get(&id)).copied()?;
            let new = m["new"].as_str().unwrap_or("").to_string();
            if !new.starts_with("Syscall") {
                return None;
            }
            let sub = if new.contains("Callback") { "callback" } else if new.contains("Timeout") { "timeout" } else { return None };
            let mut o = Map::new();
            o.insert("ev".into(), json!("wake"));
            o.insert("task".into(), json!(t));
            o.insert("how".into(), json!(sub));
            Some(o)
        }
        _ => None,
    }
}

fn ready(sc: &Value) {
    install_hook_sink(Some(Box::new(hook_map)));
    let nslots = sc["slots"].as_u64().unwrap();
    let mut slots: HashMap<u64, c_int> = HashMap::new();
    let mut peers: HashMap<u64, c_int> = HashMap::new();
    for slot in 1..=nslots {
        let mut fds = [0 as c_int; 2];
        unsafe {
            libc::socketpair(libc::AF_UNIX, libc::SOCK_STREAM, 0, fds.as_mut_ptr());
            let tv = libc::timeval { tv_sec: 1, tv_usec: 0 };
            libc::setsockopt(fds[0], libc::SOL_SOCKET, libc::SO_RCVTIMEO, std::ptr::from_ref(&tv).cast(), size_of::<libc::timeval>() as u32);
        }
        slots.insert(slot, fds[0]);
        peers.insert(slot, fds[1]);
    }
    // task programs: sequences of slots to receive one byte from
    let mut handles = vec![];
    for (i, prog) in sc["tasks"].as_array().unwrap().iter().enumerate() {
        let t = i as u64 + 1;
        // a step is a slot, or [slot, receive timeout in ms] (default 1 s): receive one byte; or an object:
        // {"op": "fill", "fd": slot, "ms": m}  send more than the socket takes, give up after m ms (leaves write interest behind)
        // {"op": "shut_wr", "fd": slot}        hooked shutdown(SHUT_WR): removes the write interest, the read interest stays
        let seq: Vec<(u64, c_int, u64, String)> = prog.as_array().unwrap().iter().map(|s| {
            if let Some(o) = s.as_object() {
                let slot = o["fd"].as_u64().unwrap();
                return (slot, slots[&slot], o.get("ms").and_then(Value::as_u64).unwrap_or(0), o["op"].as_str().unwrap().to_string());
            }
            let (slot, to) = s.as_array().map_or((s.as_u64().unwrap_or(0), 1000), |a| (a[0].as_u64().unwrap(), a[1].as_u64().unwrap()));
            (slot, slots[&slot], to, "recv".to_string())
        }).collect();
        let start_ms = sc["starts"].as_array().and_then(|a| a.get(i)).and_then(Value::as_u64).unwrap_or(0);
        let h = EventLoops::submit_task(Some(format!("t{t}-sel")), move |_| {
            if start_ms > 0 {
                if let Some(s) = SchedulableSuspender::current() {
                    s.delay(Duration::from_millis(start_ms));
                }
            }
            for (slot, fd, to_ms, op) in seq {
                if op == "fill" {
                    let tv = libc::timeval { tv_sec: (to_ms / 1000) as i64, tv_usec: ((to_ms % 1000) * 1000) as i64 };
                    let _ = syscall::setsockopt(None, fd, libc::SOL_SOCKET, libc::SO_SNDTIMEO, std::ptr::from_ref(&tv).cast(), size_of::<libc::timeval>() as u32);
                    let big = vec![1u8; 4 << 20];
                    rec(json!({"ev": "step_b", "task": t, "fd": slot, "op": "fill"}));
                    let r = syscall::send(None, fd, big.as_ptr().cast(), big.len(), 0);
                    let e = if r < 0 { unsafe { *libc::__errno_location() } } else { 0 };
                    let regs: Vec<Value> = kernel_tokens(fd).into_iter().map(|(lp, _, mask)| json!({"loop": lp, "r": mask & 0x1 != 0, "w": mask & 0x4 != 0})).collect();
                    rec(json!({"ev": "step_e", "task": t, "fd": slot, "op": "fill", "ret": r, "errno": e, "regs": regs}));
                    continue;
                }
                if op == "shut_wr" {
                    rec(json!({"ev": "step_b", "task": t, "fd": slot, "op": "shut_wr"}));
                    let r = syscall::shutdown(None, fd, libc::SHUT_WR);
                    let regs: Vec<Value> = kernel_tokens(fd).into_iter().map(|(lp, _, mask)| json!({"loop": lp, "r": mask & 0x1 != 0, "w": mask & 0x4 != 0})).collect();
                    rec(json!({"ev": "step_e", "task": t, "fd": slot, "op": "shut_wr", "ret": r, "regs": regs}));
                    continue;
                }
                let mut b = [0u8; 1];
                let tv = libc::timeval { tv_sec: (to_ms / 1000) as i64, tv_usec: ((to_ms % 1000) * 1000) as i64 };
                let _ = syscall::setsockopt(None, fd, libc::SOL_SOCKET, libc::SO_RCVTIMEO, std::ptr::from_ref(&tv).cast(), size_of::<libc::timeval>() as u32);
                rec(json!({"ev": "park_b", "task": t, "fd": slot, "loop": loop_of_thread()}));
                let r = syscall::recv(None, fd, b.as_mut_ptr().cast(), 1, 0);
                rec(json!({"ev": "recv_e", "task": t, "fd": slot, "ret": r}));
            }
            rec(json!({"ev": "tdone", "task": t}));
            Some(1)
        }, None, None);
        handles.push(h);
    }
    // the writer: (delay ms, slot)
    let t0 = Instant::now();
    for w in sc["writes"].as_array().unwrap() {
        let at = w[0].as_u64().unwrap();
        let slot = w[1].as_u64().unwrap();
        while (t0.elapsed().as_millis() as u64) < at {
            std::thread::sleep(Duration::from_millis(1));
        }
        // ground truth just before the descriptor becomes ready: whose token does the kernel hold for it?
        let toks: Vec<Value> = kernel_tokens(slots[&slot]).into_iter().map(|(lp, k, mask)| {
            let task = CO2TASK.lock().unwrap().as_ref().and_then(|m| m.get(&k)).copied().unwrap_or(0);
            json!({"loop": lp, "task": task, "r": mask & 0x1 != 0})
        }).collect();
        rec(json!({"ev": "write", "fd": slot, "toks": toks}));
        let b = [7u8; 1];
        unsafe { libc::write(peers[&slot], b.as_ptr().cast(), 1) };
    }
    for h in &handles {
        let _ = h.timeout_join(Duration::from_millis(3000));
    }
    std::mem::forget(handles);
}

fn run_scenario(sc: &Value) {
    let kind = sc["kind"].as_str().unwrap();
    let loops = sc["loops"].as_u64().unwrap() as usize;
    rec(json!({"ev": "lreset", "scenario": sc["id"], "kind": kind, "loops": loops}));
    let mut cfg = Config::single();
    cfg.set_event_loop_size(loops).set_max_size(16);
    EventLoops::init(&cfg);
    std::thread::sleep(Duration::from_millis(5));
    match kind {
        "interest" => interest(sc),
        "race" => race(sc),
        _ => ready(sc),
    }
    rec(json!({"ev": "lend", "scenario": sc["id"]}));
    flush();
    unsafe { libc::_exit(0) };
}

fn main() {
    // every child pins its loop threads to CPUs 0..k-1 (the runtime sets the affinity), so only a few
    // children can run side by side without starving each other
    isolated_main("lreset", "lend", 30_000, 3, run_scenario);
}
