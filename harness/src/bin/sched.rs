//! Driver for the scheduler (property C10). A scenario is a history of spec/Scheduler.tla:
//! submit / tick / cancel / try_resume / pass steps of the driver and `body` steps per coroutine
//! (suspend, delay d, park d, return, panic). Times are logged in microseconds since the start
//! of the scenario, read from the same clock the scheduler uses.
use ocverif::*;
use open_coroutine_core::common::constants::{CoroutineState, SyscallName, SyscallState};
use open_coroutine_core::common::now;
use open_coroutine_core::scheduler::{SchedulableCoroutine, Scheduler};
use serde_json::{json, Value};
use std::collections::HashMap;
use std::sync::atomic::{AtomicU64, Ordering};
use std::time::Duration;

static T0: AtomicU64 = AtomicU64::new(0);
const TICK_MS: u64 = 4;

fn us(t: u64) -> u64 {
    t.saturating_sub(T0.load(Ordering::SeqCst)) / 1000
}

/// index -> coroutine id, for cancel requests made from inside a run slice
static IDS: std::sync::Mutex<Vec<(u64, u64)>> = std::sync::Mutex::new(Vec::new());

fn body(c: u64, steps: Vec<Value>, s: &open_coroutine_core::scheduler::SchedulableSuspender) -> Option<usize> {
    rec(json!({"ev": "resumed", "co": c, "now": us(now())}));
    ACTIVITY.fetch_add(1, Ordering::SeqCst);
    for st in steps {
        ACTIVITY.fetch_add(1, Ordering::SeqCst);
        let step = st["step"].as_str().unwrap();
        let d = st["d"].as_u64().unwrap_or(0);
        // a cancel request made during the run slice, before the step: for this coroutine or another one
        let k = st.get("cancel").and_then(Value::as_u64).unwrap_or(0);
        if k != 0 {
            let id = IDS.lock().unwrap().iter().find(|x| x.0 == k).map(|x| x.1);
            if let Some(id) = id {
                rec(json!({"ev": "cancel", "co": k, "by": c}));
                Scheduler::try_cancel_coroutine(id);
            }
        }
        match step {
            "suspend" => {
                rec(json!({"ev": "yield", "co": c, "kind": "suspend", "ts": 0, "v": 0}));
                s.suspend();
            }
            "delay" => {
                let ts = now() + d * TICK_MS * 1_000_000;
                rec(json!({"ev": "yield", "co": c, "kind": "delay", "ts": us(ts) + 1, "v": 0}));
                s.until(ts);
            }
            "park" => {
                // what a hooked wait does: Syscall(Executing) -> Syscall(Suspend(ts)), yield, then back
                let ts = now() + d * TICK_MS * 1_000_000;
                let co = SchedulableCoroutine::current().expect("current");
                co.syscall((), SyscallName::sleep, SyscallState::Executing).expect("enter");
                co.syscall((), SyscallName::sleep, SyscallState::Suspend(ts)).expect("park");
                rec(json!({"ev": "yield", "co": c, "kind": "park", "ts": us(ts) + 1, "v": 0}));
                s.until(ts);
                let sub = match co.state() {
                    CoroutineState::Syscall((), _, SyscallState::Timeout) => "timeout",
                    CoroutineState::Syscall((), _, SyscallState::Callback) => "callback",
                    _ => "other",
                };
                rec(json!({"ev": "resumed", "co": c, "now": us(now()), "sub": sub}));
                let _ = co.syscall((), SyscallName::sleep, SyscallState::Executing);
                co.running().expect("exit syscall");
                continue;
            }
            "return" => {
                let v = 1000 + c as usize;
                rec(json!({"ev": "yield", "co": c, "kind": "return", "ts": 0, "v": v}));
                return Some(v);
            }
            "panic" => {
                rec(json!({"ev": "yield", "co": c, "kind": "panic", "ts": 0, "v": 2000 + c}));
                let lit: &'static str = Box::leak(format!("p{}", 2000 + c).into_boxed_str());
                std::panic::panic_any(lit);
            }
            other => panic!("unknown body step {other}"),
        }
        rec(json!({"ev": "resumed", "co": c, "now": us(now())}));
    }
    rec(json!({"ev": "yield", "co": c, "kind": "return", "ts": 0, "v": 1000 + c as usize}));
    Some(1000 + c as usize)
}

fn do_pass(sch: &mut Scheduler<'static>, ids: &HashMap<u64, u64>, timeout_ms: u64) -> bool {
    rec(json!({"ev": "pass_b", "now": us(now())}));
    match sch.try_timed_schedule(Duration::from_millis(timeout_ms)) {
        Ok((left, results)) => {
            let mut rs = vec![];
            for (id, r) in &results {
                let co = ids.get(id).copied().unwrap_or(0);
                match r {
                    Ok(v) => rs.push(json!({"co": co, "ok": true, "v": v.unwrap_or(0)})),
                    Err(m) => rs.push(json!({"co": co, "ok": false,
                                             "v": m.strip_prefix('p').and_then(|x| x.parse::<u64>().ok()).unwrap_or(0)})),
                }
            }
            rs.sort_by_key(|r| r["co"].as_u64());
            rec(json!({"ev": "pass_e", "now": us(now()), "quiescent": left > 0, "results": rs}));
            true
        }
        Err(e) => {
            rec(json!({"ev": "pass_err", "msg": e.to_string()}));
            false
        }
    }
}

fn run_scenario(sc: &Value) {
    T0.store(now(), Ordering::SeqCst);
    let nco = sc["nco"].as_u64().unwrap();
    IDS.lock().unwrap().clear();
    rec(json!({"ev": "sreset", "scenario": sc["id"], "nco": nco}));
    let hist = sc["hist"].as_array().unwrap();
    let mut sch = Scheduler::new(format!("sched-{}", sc["id"]), 128 * 1024);
    let mut ids: HashMap<u64, u64> = HashMap::new(); // co_id -> index
    let mut idx2id: HashMap<u64, u64> = HashMap::new();
    let prios = sc.get("prios");
    for h in hist {
        progress();
        match h["a"].as_str().unwrap() {
            "submit" => {
                let c = h["c"].as_u64().unwrap();
                let steps: Vec<Value> = hist.iter().filter(|x| x["a"] == "body" && x["c"].as_u64() == Some(c)).cloned().collect();
                let prio = prios.and_then(|p| p.get((c - 1) as usize)).and_then(Value::as_i64).unwrap_or(h["prio"].as_i64().unwrap_or(0));
                let id = sch.submit_co(move |s, ()| body(c, steps, s), None, Some(prio)).expect("submit");
                ids.insert(id, c);
                idx2id.insert(c, id);
                IDS.lock().unwrap().push((c, id));
                rec(json!({"ev": "submit", "co": c, "prio": h["prio"]}));
            }
            "tick" => std::thread::sleep(Duration::from_millis(TICK_MS)),
            "cancel" => {
                let c = h["c"].as_u64().unwrap();
                if let Some(id) = idx2id.get(&c) {
                    rec(json!({"ev": "cancel", "co": c}));
                    Scheduler::try_cancel_coroutine(*id);
                }
            }
            "try_resume" => {
                let c = h["c"].as_u64().unwrap();
                if let Some(id) = idx2id.get(&c) {
                    rec(json!({"ev": "try_resume", "co": c}));
                    sch.try_resume(*id);
                }
            }
            "pass" => {
                let _ = do_pass(&mut sch, &ids, 40);
            }
            _ => {}
        }
    }
    // settle: run passes until nothing happens any more, so that the scheduler can be dropped
    let mut idle = 0;
    for _ in 0..200 {
        let a0 = ACTIVITY.load(Ordering::SeqCst);
        if !do_pass(&mut sch, &ids, 40) {
            break;
        }
        if ACTIVITY.load(Ordering::SeqCst) == a0 {
            idle += 1;
        } else {
            idle = 0;
        }
        if idle >= 4 {
            break;
        }
        std::thread::sleep(Duration::from_millis(TICK_MS));
    }
    rec(json!({"ev": "send", "scenario": sc["id"]}));
    let r = std::panic::catch_unwind(std::panic::AssertUnwindSafe(move || drop(sch)));
    if let Err(e) = r {
        rec(json!({"ev": "died", "how": "panic", "msg": format!("scheduler drop: {}", panic_msg(&e)), "scenario": sc["id"], "step": 0}));
    }
}

static ACTIVITY: AtomicU64 = AtomicU64::new(0);

fn main() {
    let a = args();
    open_out(&a.out, a.append);
    std::panic::set_hook(Box::new(|_| {}));
    let scs = read_scenarios(&a.scenarios);
    start_watchdog(Duration::from_millis(8000));
    for (i, sc) in scs.iter().enumerate() {
        let i = i as u64;
        if i < a.from {
            continue;
        }
        set_position(i, 0);
        let r = std::panic::catch_unwind(std::panic::AssertUnwindSafe(|| run_scenario(sc)));
        if let Err(e) = r {
            rec(json!({"ev": "died", "how": "panic", "msg": panic_msg(&e), "scenario": sc["id"], "step": 0}));
            rec(json!({"ev": "send", "scenario": sc["id"]}));
        }
    }
    arm_watchdog(false);
    flush();
}
