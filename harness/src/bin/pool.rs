//! Driver for the coroutine pool (properties C11, C12, C13, single-pool part of C02, pool clause of
//! C05). A scenario is a history of spec/CoPool.tla: submit / pass / cancel / wait / stop steps of
//! the API and `body` steps per task (suspend, delay, finish). Every scenario runs in its own
//! process. Hook events (state changes, worker submits / silent drops, task events) are mapped to
//! small indices.
use ocverif::*;
use open_coroutine_core::co_pool::CoroutinePool;
use open_coroutine_core::common::constants::PoolState;
use open_coroutine_core::scheduler::SchedulableSuspender;
use serde_json::{json, Map, Value};
use std::collections::HashMap;
use std::sync::Mutex;
use std::time::{Duration, Instant};

struct Shared(*const CoroutinePool<'static>);
unsafe impl Send for Shared {}
unsafe impl Sync for Shared {}

static WORKERS: Mutex<Option<HashMap<u64, u64>>> = Mutex::new(None);

fn kind(s: &str) -> String {
    s.split('(').next().unwrap_or(s).to_string()
}

fn hook_map(mut m: Map<String, Value>) -> Option<Map<String, Value>> {
    let ev = m.get("ev").and_then(Value::as_str).unwrap_or("").to_string();
    match ev.as_str() {
        "co_submit" | "chg" | "cancel_drop" => {
            let id = m.get("id").and_then(Value::as_u64).unwrap_or(0);
            let mut g = WORKERS.lock().unwrap();
            let map = g.get_or_insert_with(HashMap::new);
            let n = map.len() as u64 + 1;
            let w = *map.entry(id).or_insert(n);
            m.insert("w".into(), json!(w));
            m.remove("id");
            m.remove("name");
            if ev == "chg" {
                let old = kind(m["old"].as_str().unwrap_or(""));
                let new = kind(m["new"].as_str().unwrap_or(""));
                m.insert("old".into(), json!(old));
                m.insert("new".into(), json!(new));
            }
            Some(m)
        }
        "task_pop" | "task_skip" | "task_run_b" | "task_run_e" | "result_stored" => {
            let name = m.get("task").and_then(Value::as_str).unwrap_or("");
            let t: u64 = name.strip_prefix('t').and_then(|x| x.split('-').next()).and_then(|x| x.parse().ok()).unwrap_or(0);
            m.insert("task".into(), json!(t));
            m.remove("pool");
            if let Some(c) = m.get("co").and_then(Value::as_u64) {
                let g = WORKERS.lock().unwrap();
                let w = g.as_ref().and_then(|x| x.get(&c)).copied().unwrap_or(0);
                m.insert("co".into(), json!(w));
            }
            Some(m)
        }
        _ => None,
    }
}

fn pstate(p: &CoroutinePool<'static>) -> &'static str {
    match p.state() {
        PoolState::Running => "Running",
        PoolState::Stopping => "Stopping",
        PoolState::Stopped => "Stopped",
    }
}

fn probe(p: &CoroutinePool<'static>) {
    rec(json!({"ev": "probe", "running": p.get_running_size(), "pstate": pstate(p)}));
}

/// task number -> task id, for cancel requests made from inside a task
static TASK_IDS: std::sync::Mutex<std::collections::BTreeMap<u64, u64>> = std::sync::Mutex::new(std::collections::BTreeMap::new());
static RACE_TASK: std::sync::atomic::AtomicU64 = std::sync::atomic::AtomicU64::new(0);
static RACE_STORED: std::sync::atomic::AtomicBool = std::sync::atomic::AtomicBool::new(false);
/// schedule forcing "deadline in the window": the worker that has stored the result of task HOLD_TASK is held before it
/// notifies the waiter until the waiter's deadline (HOLD_UNTIL, ms on the mono clock) has passed
static HOLD_TASK: std::sync::atomic::AtomicU64 = std::sync::atomic::AtomicU64::new(0);
static HOLD_UNTIL: std::sync::atomic::AtomicU64 = std::sync::atomic::AtomicU64::new(0);
static HOLD_ARMED: std::sync::atomic::AtomicBool = std::sync::atomic::AtomicBool::new(false);
static HELD: std::sync::atomic::AtomicU64 = std::sync::atomic::AtomicU64::new(0);

fn run_scenario(sc: &Value) {
    install_hook_sink(Some(Box::new(|m| {
        if m.get("ev").and_then(Value::as_str) == Some("result_stored") {
            let name = m.get("task").and_then(Value::as_str).unwrap_or("");
            let t: u64 = name.strip_prefix('t').and_then(|x| x.split('-').next()).and_then(|x| x.parse().ok()).unwrap_or(0);
            if t != 0 && t == RACE_TASK.load(std::sync::atomic::Ordering::SeqCst) {
                RACE_STORED.store(true, std::sync::atomic::Ordering::SeqCst);
            }
            if t != 0 && t == HOLD_TASK.load(std::sync::atomic::Ordering::SeqCst) {
                HOLD_ARMED.store(true, std::sync::atomic::Ordering::SeqCst);
            }
        }
        hook_map(m)
    })));
    // schedule forcing for the join protocol: a waiter that missed at its first look is held
    // before it registers until the task's result has been stored and announced
    open_coroutine_core::common::verif::set_pause(Some(Box::new(|point| {
        if point == "pool_between_store_and_notify" && HOLD_ARMED.swap(false, std::sync::atomic::Ordering::SeqCst) {
            // (the result_stored event of the held task came from this thread just before this point)
            HELD.store(HOLD_TASK.load(std::sync::atomic::Ordering::SeqCst), std::sync::atomic::Ordering::SeqCst);
            while mono_ns() / 1_000_000 < HOLD_UNTIL.load(std::sync::atomic::Ordering::SeqCst) {
                std::thread::sleep(Duration::from_millis(1));
            }
            return;
        }
        if point != "pool_wait_between_check_and_register" || RACE_TASK.load(std::sync::atomic::Ordering::SeqCst) == 0 {
            return;
        }
        let t0 = Instant::now();
        while !RACE_STORED.load(std::sync::atomic::Ordering::SeqCst) && t0.elapsed() < Duration::from_millis(200) {
            std::thread::sleep(Duration::from_millis(1));
        }
        std::thread::sleep(Duration::from_millis(5));
    })));
    let max = sc["max"].as_u64().unwrap() as usize;
    let min = sc["min"].as_u64().unwrap_or(0) as usize;
    let nt = sc["nt"].as_u64().unwrap();
    rec(json!({"ev": "preset", "scenario": sc["id"], "max": max, "min": min, "nt": nt,
               "order": sc.get("order").and_then(Value::as_bool).unwrap_or(false)}));
    let pool: &'static mut CoroutinePool<'static> =
        Box::leak(Box::new(CoroutinePool::new(format!("pool{}", sc["id"]), 128 * 1024, min, max,
                                              sc.get("keep_alive_ms").and_then(Value::as_u64).unwrap_or(0) * 1_000_000)));
    let hist = sc["hist"].as_array().unwrap();
    let mut ids: HashMap<u64, u64> = HashMap::new();
    let mut waiters = vec![];
    let tick = Duration::from_millis(3);
    for h in hist {
        match h["a"].as_str().unwrap() {
            "submit" => {
                let t = h["t"].as_u64().unwrap();
                let steps: Vec<Value> = hist.iter().filter(|x| x["a"] == "body" && x["t"].as_u64() == Some(t)).cloned().collect();
                let outcome = sc.get("outcomes").and_then(|o| o.get(t.to_string())).and_then(Value::as_str).unwrap_or("ok").to_string();
                let prio = sc.get("prios").and_then(|o| o.get(t.to_string())).and_then(Value::as_i64);
                let r = pool.submit_task(
                    Some(format!("t{}-{}", t, sc["id"])),
                    move |_| {
                        for st in steps {
                            let step = st["step"].as_str().unwrap();
                            rec(json!({"ev": "tstep", "task": t, "step": step}));
                            match step {
                                "suspend" => {
                                    SchedulableSuspender::current().expect("task outside a coroutine").suspend();
                                }
                                "delay" => {
                                    SchedulableSuspender::current().expect("task outside a coroutine").delay(Duration::from_millis(4));
                                }
                                // the task submits a follow-up task to its own pool (refused once the pool is stopping)
                                "chain" => {
                                    let ok = CoroutinePool::current()
                                        .map(|p| p.submit_task(Some(format!("chain{t}")), |_| Some(7), None, None).is_ok());
                                    rec(json!({"ev": "chain", "task": t, "ok": ok.unwrap_or(false), "none": ok.is_none()}));
                                }
                                // the task asks for the cancellation of another task from inside its own run slice
                                "cancel_task" => {
                                    let target = st["target"].as_u64().unwrap_or(0);
                                    let id = TASK_IDS.lock().unwrap().get(&target).copied();
                                    if let Some(id) = id {
                                        rec(json!({"ev": "cancel", "task": target, "by": t}));
                                        CoroutinePool::try_cancel_task(id);
                                    }
                                }
                                "long_delay" => {
                                    SchedulableSuspender::current().expect("task outside a coroutine").delay(Duration::from_millis(40));
                                }
                                _ => break,
                            }
                        }
                        if outcome == "panic" {
                            panic!("p{}", t);
                        }
                        Some(1000 + t as usize)
                    },
                    None,
                    prio,
                );
                rec(json!({"ev": "submit_e", "task": t, "ok": r.is_ok(), "prio": prio.unwrap_or(0).clamp(-1000, 1000)}));
                if let Ok(id) = r {
                    ids.insert(t, id);
                    TASK_IDS.lock().unwrap().insert(t, id);
                }
            }
            "pass" => {
                rec(json!({"ev": "pass_b"}));
                let r = pool.try_timed_schedule_task(Duration::from_millis(h.get("ms").and_then(Value::as_u64).unwrap_or(30)));
                rec(json!({"ev": "pass_e", "ok": r.is_ok()}));
                probe(pool);
            }
            "timer" | "tick" => std::thread::sleep(tick),
            "cancel" => {
                let t = h["t"].as_u64().unwrap();
                if let Some(id) = ids.get(&t) {
                    rec(json!({"ev": "cancel", "task": t}));
                    CoroutinePool::try_cancel_task(*id);
                }
            }
            "wait" => {
                let t = h["t"].as_u64().unwrap();
                let ms = h.get("ms").and_then(Value::as_u64).unwrap_or(300);
                if let Some(id) = ids.get(&t).copied() {
                    if h.get("race").and_then(Value::as_str) == Some("deadline") {
                        HOLD_UNTIL.store(mono_ns() / 1_000_000 + ms + 40, std::sync::atomic::Ordering::SeqCst);
                        HOLD_TASK.store(t, std::sync::atomic::Ordering::SeqCst);
                    }
                    if h.get("race").and_then(Value::as_bool).unwrap_or(false) {
                        RACE_STORED.store(false, std::sync::atomic::Ordering::SeqCst);
                        RACE_TASK.store(t, std::sync::atomic::Ordering::SeqCst);
                    }
                    let sh = Shared(std::ptr::from_ref(pool));
                    rec(json!({"ev": "wait_b", "task": t, "ms": ms}));
                    waiters.push(std::thread::spawn(move || {
                        let sh = sh;
                        let p = unsafe { &*sh.0 };
                        let t0 = Instant::now();
                        let r = p.wait_task_result(id, Duration::from_millis(ms));
                        let el = t0.elapsed().as_millis() as u64;
                        match r {
                            Ok(Ok(v)) => rec(json!({"ev": "wait_e", "task": t, "out": "ok", "v": v.unwrap_or(0), "ms": el, "limit": ms, "held": HELD.load(std::sync::atomic::Ordering::SeqCst) == t})),
                            Ok(Err(m)) => rec(json!({"ev": "wait_e", "task": t, "out": "err", "v": m.strip_prefix('p').and_then(|x| x.parse::<u64>().ok()).unwrap_or(0),
                                                     "msg": m, "ms": el, "limit": ms, "held": HELD.load(std::sync::atomic::Ordering::SeqCst) == t})),
                            Err(e) => rec(json!({"ev": "wait_e", "task": t, "out": if e.kind() == std::io::ErrorKind::TimedOut { "timeout" } else { "error" },
                                                 "v": 0, "ms": el, "limit": ms, "held": HELD.load(std::sync::atomic::Ordering::SeqCst) == t})),
                        }
                    }));
                    // let the waiter reach its first check
                    std::thread::sleep(Duration::from_millis(1));
                }
            }
            // the join handle of the task is dropped: JoinHandle::drop calls clean_task_result
            // (open_coroutine::JoinHandle::try_cancel(self) and any_join drop the handle right after the cancel)
            "abandon" => {
                let t = h["t"].as_u64().unwrap();
                if let Some(id) = ids.get(&t) {
                    rec(json!({"ev": "abandon", "task": t}));
                    pool.clean_task_result(*id);
                }
            }
            // a worker creation that fails (a stack that cannot be mapped): the running size must not change
            "bad_co" => {
                let r = pool.submit_co(|_, ()| None, Some(usize::MAX / 4), None);
                rec(json!({"ev": "bad_co", "ok": r.is_ok()}));
                probe(pool);
            }
            "take" => {
                let t = h["t"].as_u64().unwrap();
                if let Some(id) = ids.get(&t) {
                    match pool.try_take_task_result(*id) {
                        Some(Ok(v)) => rec(json!({"ev": "take", "task": t, "out": "ok", "v": v.unwrap_or(0)})),
                        Some(Err(m)) => rec(json!({"ev": "take", "task": t, "out": "err", "v": m.strip_prefix('p').and_then(|x| x.parse::<u64>().ok()).unwrap_or(0)})),
                        None => rec(json!({"ev": "take", "task": t, "out": "none", "v": 0})),
                    }
                }
            }
            "stop" => {
                let ms = h.get("ms").and_then(Value::as_u64).unwrap_or(250);
                rec(json!({"ev": "stop_b", "limit": ms}));
                let t0 = Instant::now();
                let r = pool.stop(Duration::from_millis(ms));
                rec(json!({"ev": "stop_e", "ok": r.is_ok(), "ms": t0.elapsed().as_millis() as u64, "limit": ms}));
                probe(pool);
            }
            _ => {}
        }
    }
    // settle: give every accepted task the chance to finish (delays are 4 ms)
    if pool.state() == PoolState::Running {
        let mut quiet = 0;
        for _ in 0..200 {
            rec(json!({"ev": "pass_b"}));
            let r = pool.try_timed_schedule_task(Duration::from_millis(20));
            rec(json!({"ev": "pass_e", "ok": r.is_ok()}));
            probe(pool);
            // (a pool keeps `min` workers alive)
            if pool.get_running_size() <= min && pool.is_empty() {
                quiet += 1;
            } else {
                quiet = 0;
            }
            if quiet >= 3 {
                break;
            }
            std::thread::sleep(tick);
        }
    }
    rec(json!({"ev": "settled"}));
    for w in waiters {
        let _ = w.join();
    }
    // final stop with a short limit: its latency is data (C11: prompt when all work is done or cancelled)
    if pool.state() != PoolState::Stopped {
        rec(json!({"ev": "stop_b", "limit": 250, "final": true}));
        let t0 = Instant::now();
        let r = pool.stop(Duration::from_millis(250));
        rec(json!({"ev": "stop_e", "ok": r.is_ok(), "ms": t0.elapsed().as_millis() as u64, "limit": 250, "final": true}));
        probe(pool);
    }
    rec(json!({"ev": "pend", "scenario": sc["id"]}));
    // the pool is leaked on purpose: its Drop would wait 30 s and assert
}

fn main() {
    isolated_main("preset", "pend", 8000, 12, run_scenario);
}
