//! Driver for the hooked timed waits (property C14): sleep, usleep, nanosleep, poll, select,
//! pthread_cond_timedwait are called through `open_coroutine_core::syscall` from a plain thread or
//! from inside a task; poll / select get a scripted kernel that records the timeout it is probed
//! with. One process per scenario; elapsed time is measured on the monotonic clock.
use ocverif::*;
use open_coroutine_core::config::Config;
use open_coroutine_core::net::EventLoops;
use open_coroutine_core::syscall;
use serde_json::{json, Value};
use std::ffi::c_int;
use std::time::{Duration, Instant};

extern "C" fn k_poll(_fds: *mut libc::pollfd, _n: libc::nfds_t, timeout: c_int) -> c_int {
    rec(json!({"ev": "probe", "zero": timeout == 0}));
    0
}
extern "C" fn k_select(_n: c_int, _r: *mut libc::fd_set, _w: *mut libc::fd_set, _e: *mut libc::fd_set, tv: *mut libc::timeval) -> c_int {
    let zero = !tv.is_null() && unsafe { (*tv).tv_sec == 0 && (*tv).tv_usec == 0 };
    rec(json!({"ev": "probe", "zero": zero}));
    0
}

fn errno() -> c_int {
    unsafe { *libc::__errno_location() }
}

/// returns (ret, errno-like code)
fn do_call(call: &str, t_us: u64, invalid: &str) -> (i64, i64) {
    unsafe { *libc::__errno_location() = 0 };
    match call {
        "sleep" => (i64::from(syscall::sleep(None, (t_us / 1_000_000) as u32)), i64::from(errno())),
        "usleep" => (i64::from(syscall::usleep(None, t_us as u32)), i64::from(errno())),
        "nanosleep" => {
            let mut ts = libc::timespec { tv_sec: (t_us / 1_000_000) as i64, tv_nsec: ((t_us % 1_000_000) * 1000) as i64 };
            match invalid {
                "neg_sec" => ts.tv_sec = -1,
                "neg_nsec" => ts.tv_nsec = -1,
                "big_nsec" => ts.tv_nsec = 1_000_000_000,
                _ => {}
            }
            (i64::from(syscall::nanosleep(None, &ts, std::ptr::null_mut())), i64::from(errno()))
        }
        "poll" => {
            let f: extern "C" fn(*mut libc::pollfd, libc::nfds_t, c_int) -> c_int = k_poll;
            (i64::from(syscall::poll(Some(&f), std::ptr::null_mut(), 0, (t_us / 1000) as c_int)), i64::from(errno()))
        }
        "select" => {
            let f: extern "C" fn(c_int, *mut libc::fd_set, *mut libc::fd_set, *mut libc::fd_set, *mut libc::timeval) -> c_int = k_select;
            let mut tv = libc::timeval { tv_sec: (t_us / 1_000_000) as i64, tv_usec: (t_us % 1_000_000) as i64 };
            match invalid {
                "neg_sec" => tv.tv_sec = -1,
                "neg_usec" => tv.tv_usec = -1,
                _ => {}
            }
            (i64::from(syscall::select(Some(&f), 0, std::ptr::null_mut(), std::ptr::null_mut(), std::ptr::null_mut(), &mut tv)), i64::from(errno()))
        }
        "cond" => unsafe {
            let mut m: libc::pthread_mutex_t = libc::PTHREAD_MUTEX_INITIALIZER;
            let mut c: libc::pthread_cond_t = libc::PTHREAD_COND_INITIALIZER;
            libc::pthread_mutex_lock(&mut m);
            let mut now: libc::timespec = std::mem::zeroed();
            libc::clock_gettime(libc::CLOCK_REALTIME, &mut now);
            let total_ns = now.tv_nsec as u64 + (t_us % 1_000_000) * 1000;
            let mut abs = libc::timespec { tv_sec: now.tv_sec + (t_us / 1_000_000) as i64 + (total_ns / 1_000_000_000) as i64,
                                           tv_nsec: (total_ns % 1_000_000_000) as i64 };
            match invalid {
                "neg_nsec" => abs.tv_nsec = -1,
                "big_nsec" => abs.tv_nsec = 1_000_000_000,
                _ => {}
            }
            let r = syscall::pthread_cond_timedwait(None, &mut c, &mut m, &abs);
            libc::pthread_mutex_unlock(&mut m);
            // the return value is the error code itself
            (i64::from(r), i64::from(r))
        },
        other => panic!("unknown call {other}"),
    }
}

/// What the caller did just before the timed wait (same coroutine / thread):
///   "recv_data"     a hooked recv on a socket that was woken by data arriving after 3 ms - the rest of the
///                   recv's wait slice stays behind in the scheduler's syscall timer
///   "recv_timeout"  a hooked recv that ran into a 30 ms SO_RCVTIMEO - the socket stays registered; the
///                   peer writes 100 ms later, i.e. during the timed wait that follows
/// Early resumptions of the waiting coroutine caused by either must not shorten the wait.
fn pre_step(pre: &str) {
    if pre.is_empty() {
        return;
    }
    let mut fds = [0 as c_int; 2];
    unsafe { libc::socketpair(libc::AF_UNIX, libc::SOCK_STREAM, 0, fds.as_mut_ptr()) };
    let (a, b) = (fds[0], fds[1]);
    let delay = if pre == "recv_data" { 3 } else { 130 };
    if pre == "recv_timeout" {
        let tv = libc::timeval { tv_sec: 0, tv_usec: 30_000 };
        unsafe { libc::setsockopt(a, libc::SOL_SOCKET, libc::SO_RCVTIMEO, std::ptr::from_ref(&tv).cast(), std::mem::size_of::<libc::timeval>() as u32) };
    }
    std::thread::spawn(move || {
        std::thread::sleep(Duration::from_millis(delay));
        let x = [7u8];
        unsafe { libc::write(b, x.as_ptr().cast(), 1) };
    });
    let mut buf = [0u8; 8];
    let t0 = Instant::now();
    let r = syscall::recv(None, a, buf.as_mut_ptr().cast(), 8, 0);
    rec(json!({"ev": "pre", "kind": pre, "ret": r, "us": t0.elapsed().as_micros() as u64}));
    // the descriptors stay open (and registered) for the rest of the scenario
}

extern "C" fn on_signal(_: c_int) {}
static WAIT_OVER: std::sync::atomic::AtomicBool = std::sync::atomic::AtomicBool::new(false);

/// "signals": a plain-thread caller is sent SIGUSR1 (a handler that does nothing, installed with SA_RESTART) every
/// millisecond while it waits: each one interrupts the poll its wait is made of (epoll_wait is never restarted),
/// and the wait must go on (TimedWait!EarlyWake for thread callers). With "busy" a coroutine keeps the event-loop
/// thread computing, so that it is the waiting thread that sits in the poll.
fn start_signals(busy: bool) {
    unsafe {
        let mut sa: libc::sigaction = std::mem::zeroed();
        sa.sa_sigaction = on_signal as *const () as usize;
        sa.sa_flags = libc::SA_RESTART;
        libc::sigaction(libc::SIGUSR1, &sa, std::ptr::null_mut());
    }
    let target = unsafe { libc::pthread_self() } as usize;
    std::thread::spawn(move || {
        let mut n = 0u64;
        while !WAIT_OVER.load(std::sync::atomic::Ordering::SeqCst) {
            unsafe { libc::pthread_kill(target as libc::pthread_t, libc::SIGUSR1) };
            n += 1;
            std::thread::sleep(Duration::from_millis(1));
        }
        rec(json!({"ev": "signals", "sent": n}));
    });
    if busy {
        let h = EventLoops::submit_task(None, |_| {
            while !WAIT_OVER.load(std::sync::atomic::Ordering::SeqCst) {
                let t0 = Instant::now();
                while t0.elapsed() < Duration::from_millis(2) {
                    std::hint::spin_loop();
                }
                if let Some(s) = open_coroutine_core::scheduler::SchedulableSuspender::current() {
                    s.suspend();
                }
            }
            Some(1)
        }, None, None);
        std::mem::forget(h);
    }
}

fn run_scenario(sc: &Value) {
    let call = sc["call"].as_str().unwrap().to_string();
    let t_us = sc["t_us"].as_u64().unwrap();
    let invalid = sc.get("invalid").and_then(Value::as_str).unwrap_or("").to_string();
    let in_co = sc.get("where").and_then(Value::as_str) == Some("co");
    let pre = sc.get("pre").and_then(Value::as_str).unwrap_or("").to_string();
    rec(json!({"ev": "treset", "scenario": sc["id"], "call": call, "t_us": t_us, "invalid": invalid,
               "where": if in_co { "co" } else { "thread" }, "long": sc.get("long").and_then(Value::as_bool).unwrap_or(false)}));
    EventLoops::init(&Config::single());
    std::thread::sleep(Duration::from_millis(5));
    let signals = sc.get("signals").and_then(Value::as_bool).unwrap_or(false);
    let busy = sc.get("busy").and_then(Value::as_bool).unwrap_or(false);
    let work = move || {
        pre_step(&pre);
        if signals {
            start_signals(busy);
        }
        rec(json!({"ev": "tw_b"}));
        let t0 = Instant::now();
        let (ret, code) = do_call(&call, t_us, &invalid);
        let us = t0.elapsed().as_micros() as u64;
        WAIT_OVER.store(true, std::sync::atomic::Ordering::SeqCst);
        rec(json!({"ev": "tw_e", "ret": ret, "code": code, "us": us}));
        if signals {
            // let the signalling thread write its record
            std::thread::sleep(Duration::from_millis(5));
        }
    };
    if in_co {
        let h = EventLoops::submit_task(None, move |_| { work(); Some(1) }, None, None);
        let r = h.timeout_join(Duration::from_millis(sc.get("timeout_ms").and_then(Value::as_u64).unwrap_or(8000)));
        if !matches!(r, Ok(Ok(Some(1)))) {
            rec(json!({"ev": "died", "how": "join", "msg": format!("{r:?}"), "scenario": sc["id"], "step": 0}));
        }
        std::mem::forget(h);
    } else {
        work();
    }
    rec(json!({"ev": "tend", "scenario": sc["id"]}));
    flush();
    unsafe { libc::_exit(0) };
}

fn main() {
    isolated_main("treset", "tend", 8000, 8, run_scenario);
}
