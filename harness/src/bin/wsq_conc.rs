//! Concurrent stress of the work-steal queues (property C03): T threads, each owning one local
//! queue and also using the shared queue; unique items; a process-wide sequence number is taken
//! before every push and after every pop. After all threads joined the queues are drained.
use ocverif::*;
use open_coroutine_core::common::ordered_work_steal::{OrderedLocalQueue, OrderedWorkStealQueue};
use open_coroutine_core::common::work_steal::{LocalQueue, WorkStealQueue};
use rand::rngs::StdRng;
use rand::{RngExt, SeedableRng};
use serde_json::{json, Value};
use std::sync::atomic::{AtomicU64, Ordering};
use std::sync::{Arc, Barrier};
use std::time::Duration;

static CSEQ: AtomicU64 = AtomicU64::new(0);

struct SendPtr<T>(T);
unsafe impl<T> Send for SendPtr<T> {}
unsafe impl<T> Sync for SendPtr<T> {}

enum L {
    Ord(OrderedLocalQueue<'static, i32>),
    Plain(LocalQueue<'static, i32>),
}
#[derive(Clone, Copy)]
enum G {
    Ord(&'static OrderedWorkStealQueue<i32>),
    Plain(&'static WorkStealQueue<i32>),
}
impl G {
    fn push(&self, p: i64, x: i32) {
        match self {
            G::Ord(g) => g.push_with_priority(p, x),
            G::Plain(g) => g.push(x),
        }
    }
    fn pop(&self) -> Option<i32> {
        match self {
            G::Ord(g) => g.pop(),
            G::Plain(g) => g.pop(),
        }
    }
    fn len(&self) -> usize {
        match self {
            G::Ord(g) => g.len(),
            G::Plain(g) => g.len(),
        }
    }
}
impl L {
    fn push(&self, p: i64, x: i32) {
        match self {
            L::Ord(l) => l.push_with_priority(p, x),
            L::Plain(l) => l.push(x),
        }
    }
    fn pop(&self) -> Option<i32> {
        match self {
            L::Ord(l) => l.pop(),
            L::Plain(l) => l.pop(),
        }
    }
}

static SPILLS: AtomicU64 = AtomicU64::new(0);
static SPILL_AT: AtomicU64 = AtomicU64::new(0);
static THIEF_GO: std::sync::atomic::AtomicBool = std::sync::atomic::AtomicBool::new(false);
static THIEF_DONE: std::sync::atomic::AtomicBool = std::sync::atomic::AtomicBool::new(false);

/// Forced interleaving for the spill loop of a full ordered local queue (WorkStealQueue.tla: the owner's spill
/// passes against sibling steals): the owner fills its queue and pushes once more; when it has moved `after`
/// items to the shared queue (the `spill` hook event is raised inside the loop) it is held while a sibling
/// pops until nothing is left anywhere, then released. The push must still return.
fn run_forced(sc: &Value, idx: u64) {
    let cap = sc["cap"].as_u64().unwrap() as usize;
    let after = sc["after"].as_u64().unwrap_or(1);
    rec(json!({"ev": "creset", "scenario": sc["id"], "threads": 2, "cap": cap, "ordered": true}));
    SPILLS.store(0, Ordering::SeqCst);
    SPILL_AT.store(after, Ordering::SeqCst);
    THIEF_GO.store(false, Ordering::SeqCst);
    THIEF_DONE.store(false, Ordering::SeqCst);
    install_hook_sink(Some(Box::new(|m| {
        if m.get("ev").and_then(Value::as_str) == Some("spill") && SPILLS.fetch_add(1, Ordering::SeqCst) + 1 == SPILL_AT.load(Ordering::SeqCst) {
            THIEF_GO.store(true, Ordering::SeqCst);
            let t0 = std::time::Instant::now();
            while !THIEF_DONE.load(Ordering::SeqCst) && t0.elapsed() < Duration::from_secs(2) {
                std::thread::yield_now();
            }
        }
        None
    })));
    let q: &'static OrderedWorkStealQueue<i32> = Box::leak(Box::new(OrderedWorkStealQueue::new(2, cap)));
    let owner = SendPtr(q.local_queue());
    let thief = SendPtr(q.local_queue());
    let th = std::thread::spawn(move || {
        let thief = thief;
        let mut log = vec![];
        while !THIEF_GO.load(Ordering::SeqCst) {
            std::thread::yield_now();
        }
        for _ in 0..(3 * cap + 3) {
            progress();
            if let Some(v) = thief.0.pop() {
                log.push((CSEQ.fetch_add(1, Ordering::SeqCst), 1u8, v));
            }
        }
        THIEF_DONE.store(true, Ordering::SeqCst);
        (thief, log)
    });
    let mut all: Vec<(u64, u8, i32)> = vec![];
    for k in 0..=(cap as i32) {
        progress();
        let item = 1_000_000 + k + 1;
        all.push((CSEQ.fetch_add(1, Ordering::SeqCst), 0, item));
        // the last push finds the queue full and spills
        owner.0.push_with_priority(i64::from(k % 2), item);
    }
    // (if the queue never spilled, let the sibling go anyway)
    THIEF_GO.store(true, Ordering::SeqCst);
    let thief = match th.join() {
        Ok((l, log)) => {
            all.extend(log);
            Some(l)
        }
        Err(e) => {
            rec(json!({"ev": "died", "how": "panic", "msg": panic_msg(&e), "scenario": idx, "step": 0}));
            None
        }
    };
    open_coroutine_core::common::verif::set_sink(None);
    all.sort();
    for (_, kind, item) in &all {
        rec(json!({"ev": if *kind == 0 { "cpush" } else { "cpop" }, "item": item}));
    }
    rec(json!({"ev": "quiesce", "glen": q.len()}));
    loop {
        progress();
        let v = q.pop().unwrap_or(0);
        rec(json!({"ev": "dgpop", "item": v}));
        if v == 0 {
            break;
        }
    }
    for (i, l) in [Some(&owner), thief.as_ref()].into_iter().enumerate() {
        let Some(l) = l else { continue };
        loop {
            progress();
            let v = l.0.pop().unwrap_or(0);
            rec(json!({"ev": "dlpop", "q": i + 1, "item": v}));
            if v == 0 {
                break;
            }
        }
    }
    let v = q.pop().unwrap_or(0);
    rec(json!({"ev": "dgpop", "item": v}));
    rec(json!({"ev": "cend", "scenario": sc["id"], "drained": true, "spills": SPILLS.load(Ordering::SeqCst)}));
    std::mem::forget(owner);
    std::mem::forget(thief);
}

/// Forced interleaving for the shared queue (WSQConc.tla: push = count, then insert): every push is held
/// between its two halves while another thread pops the shared queue once, then released.
fn run_gap(sc: &Value, idx: u64) {
    let ordered = sc["ordered"].as_bool().unwrap_or(true);
    let n = sc["ops"].as_u64().unwrap_or(8) as i32;
    rec(json!({"ev": "creset", "scenario": sc["id"], "threads": 2, "cap": 4, "ordered": ordered}));
    THIEF_GO.store(false, Ordering::SeqCst);
    THIEF_DONE.store(false, Ordering::SeqCst);
    open_coroutine_core::common::verif::set_pause(Some(Box::new(|point| {
        if point == "shared_push_between_count_and_insert" {
            THIEF_DONE.store(false, Ordering::SeqCst);
            THIEF_GO.store(true, Ordering::SeqCst);
            let t0 = std::time::Instant::now();
            while !THIEF_DONE.load(Ordering::SeqCst) && t0.elapsed() < Duration::from_secs(2) {
                std::thread::yield_now();
            }
        }
    })));
    let g: G = if ordered {
        G::Ord(Box::leak(Box::new(OrderedWorkStealQueue::new(1, 4))))
    } else {
        G::Plain(Box::leak(Box::new(WorkStealQueue::new(1, 4))))
    };
    let gp = Arc::new(SendPtr(g));
    let gp2 = gp.clone();
    static STOP: std::sync::atomic::AtomicBool = std::sync::atomic::AtomicBool::new(false);
    STOP.store(false, Ordering::SeqCst);
    let popper = std::thread::spawn(move || {
        let g = gp2.0;
        let mut log = vec![];
        loop {
            while !THIEF_GO.load(Ordering::SeqCst) {
                if STOP.load(Ordering::SeqCst) {
                    return log;
                }
                std::thread::yield_now();
            }
            THIEF_GO.store(false, Ordering::SeqCst);
            progress();
            if let Some(v) = g.pop() {
                log.push((CSEQ.fetch_add(1, Ordering::SeqCst), 1u8, v));
            }
            THIEF_DONE.store(true, Ordering::SeqCst);
        }
    });
    let mut all: Vec<(u64, u8, i32)> = vec![];
    for k in 0..n {
        progress();
        let item = 1_000_000 + k + 1;
        all.push((CSEQ.fetch_add(1, Ordering::SeqCst), 0, item));
        g.push(i64::from(k % 2), item);
    }
    STOP.store(true, Ordering::SeqCst);
    open_coroutine_core::common::verif::set_pause(None);
    match popper.join() {
        Ok(log) => all.extend(log),
        Err(e) => rec(json!({"ev": "died", "how": "panic", "msg": panic_msg(&e), "scenario": idx, "step": 0})),
    }
    all.sort();
    for (_, kind, item) in &all {
        rec(json!({"ev": if *kind == 0 { "cpush" } else { "cpop" }, "item": item}));
    }
    rec(json!({"ev": "quiesce", "glen": g.len()}));
    loop {
        progress();
        let v = g.pop().unwrap_or(0);
        rec(json!({"ev": "dgpop", "item": v}));
        if v == 0 {
            break;
        }
    }
    rec(json!({"ev": "cend", "scenario": sc["id"], "drained": true, "spills": 1}));
}

fn run(sc: &Value, idx: u64) {
    if sc.get("force").and_then(Value::as_str) == Some("spill_steal") {
        return run_forced(sc, idx);
    }
    if sc.get("force").and_then(Value::as_str) == Some("push_pop_gap") {
        return run_gap(sc, idx);
    }
    let threads = sc["threads"].as_u64().unwrap() as usize;
    let cap = sc["cap"].as_u64().unwrap() as usize;
    let ordered = sc["ordered"].as_bool().unwrap();
    let nops = sc["ops"].as_u64().unwrap() as usize;
    let seed = sc["seed"].as_u64().unwrap();
    let nprio = sc["prios"].as_i64().unwrap_or(1);
    rec(json!({"ev": "creset", "scenario": sc["id"], "threads": threads, "cap": cap, "ordered": ordered}));
    let (g, locals): (G, Vec<L>) = if ordered {
        let q: &'static OrderedWorkStealQueue<i32> = Box::leak(Box::new(OrderedWorkStealQueue::new(threads, cap)));
        (G::Ord(q), (0..threads).map(|_| L::Ord(q.local_queue())).collect())
    } else {
        let q: &'static WorkStealQueue<i32> = Box::leak(Box::new(WorkStealQueue::new(threads, cap)));
        (G::Plain(q), (0..threads).map(|_| L::Plain(q.local_queue())).collect())
    };
    let gp = Arc::new(SendPtr(g));
    let barrier = Arc::new(Barrier::new(threads));
    let mut handles = vec![];
    for (t, l) in locals.into_iter().enumerate() {
        let l = SendPtr(l);
        let gp = gp.clone();
        let barrier = barrier.clone();
        handles.push(std::thread::spawn(move || {
            let l = l;
            let g = gp.0;
            let mut rng = StdRng::seed_from_u64(seed.wrapping_mul(31).wrapping_add(t as u64));
            let mut log: Vec<(u64, u8, i32)> = Vec::with_capacity(nops * 2);
            let mut k = 0i32;
            barrier.wait();
            for _ in 0..nops {
                progress();
                let x: u32 = rng.random_range(0..100);
                if x < 35 {
                    k += 1;
                    let item = (t as i32 + 1) * 1_000_000 + k;
                    log.push((CSEQ.fetch_add(1, Ordering::SeqCst), 0, item));
                    l.0.push(rng.random_range(0..nprio), item);
                } else if x < 70 {
                    if let Some(v) = l.0.pop() {
                        log.push((CSEQ.fetch_add(1, Ordering::SeqCst), 1, v));
                    }
                } else if x < 85 {
                    k += 1;
                    let item = (t as i32 + 1) * 1_000_000 + k;
                    log.push((CSEQ.fetch_add(1, Ordering::SeqCst), 0, item));
                    g.push(rng.random_range(0..nprio), item);
                } else if let Some(v) = g.pop() {
                    log.push((CSEQ.fetch_add(1, Ordering::SeqCst), 1, v));
                }
            }
            (l, log)
        }));
    }
    let mut all = vec![];
    let mut locals = vec![];
    for h in handles {
        match h.join() {
            Ok((l, log)) => {
                locals.push(l);
                all.extend(log);
            }
            Err(e) => {
                rec(json!({"ev": "died", "how": "panic", "msg": panic_msg(&e), "scenario": idx, "step": 0}));
            }
        }
    }
    all.sort();
    for (_, kind, item) in &all {
        rec(json!({"ev": if *kind == 0 { "cpush" } else { "cpop" }, "item": item}));
    }
    let g = gp.0;
    rec(json!({"ev": "quiesce", "glen": g.len()}));
    loop {
        progress();
        let v = g.pop().unwrap_or(0);
        rec(json!({"ev": "dgpop", "item": v}));
        if v == 0 {
            break;
        }
    }
    for (q, l) in locals.iter().enumerate() {
        loop {
            progress();
            let v = l.0.pop().unwrap_or(0);
            rec(json!({"ev": "dlpop", "q": q + 1, "item": v}));
            if v == 0 {
                break;
            }
        }
    }
    let v = g.pop().unwrap_or(0);
    rec(json!({"ev": "dgpop", "item": v}));
    rec(json!({"ev": "cend", "scenario": sc["id"], "drained": true}));
    std::mem::forget(locals);
}

fn main() {
    let a = args();
    open_out(&a.out, a.append);
    let scs = read_scenarios(&a.scenarios);
    start_watchdog(Duration::from_millis(5000));
    for (i, sc) in scs.iter().enumerate() {
        let i = i as u64;
        if i < a.from {
            continue;
        }
        set_position(i, 0);
        run(sc, i);
    }
    arm_watchdog(false);
    flush();
}
