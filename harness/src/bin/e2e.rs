//! End-to-end driver over `EventLoops` (properties C01, C02, C12 and the overlap clause of C15):
//! k event loops, M submitter threads, N tasks each with unique names; tasks are joined through
//! their JoinHandle; optionally EventLoops::stop runs while submitters are still active.
//! One process per scenario (the EventLoops instance is a process global).
use ocverif::*;
use open_coroutine_core::config::Config;
use open_coroutine_core::net::EventLoops;
use serde_json::{json, Map, Value};
use std::sync::atomic::{AtomicBool, AtomicU64, Ordering};
use std::sync::Arc;
use std::time::{Duration, Instant};

static RAN: AtomicU64 = AtomicU64::new(0);
/// schedule forcing (pause points of the repository's verification hooks)
static LATE_LOOP_MS: AtomicU64 = AtomicU64::new(0);
static RACE_TASK: AtomicU64 = AtomicU64::new(0);
static GAP_EVERY: AtomicU64 = AtomicU64::new(0);
static RACE_AT_GAP: AtomicBool = AtomicBool::new(false);
static STOP_DONE: AtomicBool = AtomicBool::new(false);
thread_local! {
    static CUR_TASK: std::cell::Cell<u64> = const { std::cell::Cell::new(0) };
}

/// a JoinHandle is not Send (it holds a reference to its event loop); the harness moves handles
/// between its own threads the way applications do with the crate's wrapper type
struct H(open_coroutine_core::net::join::JoinHandle);
unsafe impl Send for H {}

fn loop_of_thread() -> i64 {
    std::thread::current()
        .name()
        .and_then(|n| n.strip_prefix("open-coroutine-event-loop-"))
        .and_then(|n| n.strip_suffix("-thread"))
        .and_then(|n| n.parse().ok())
        .map_or(-1, |x: i64| x + 1)
}

fn hook_map(mut m: Map<String, Value>) -> Option<Map<String, Value>> {
    let ev = m.get("ev").and_then(Value::as_str).unwrap_or("").to_string();
    match ev.as_str() {
        "task_skip" | "task_run_b" | "task_run_e" | "result_stored" => {
            let name = m.get("task").and_then(Value::as_str).unwrap_or("");
            let t: u64 = name.strip_prefix('t').and_then(|x| x.split('-').next()).and_then(|x| x.parse().ok()).unwrap_or(0);
            if t == 0 {
                return None;
            }
            let lp: i64 = m.get("pool").and_then(Value::as_str).and_then(|p| p.strip_prefix("open-coroutine-event-loop-"))
                .and_then(|x| x.parse().ok()).map_or(-1, |x: i64| x + 1);
            m.insert("task".into(), json!(t));
            m.insert("loop".into(), json!(lp));
            m.remove("pool");
            m.remove("co");
            Some(m)
        }
        _ => None,
    }
}

/// the socket of the "duplex" body: (the tasks' end, the peer's end)
static DUPLEX: std::sync::OnceLock<(i32, i32)> = std::sync::OnceLock::new();

fn run_scenario(sc: &Value) {
    if sc["join"].as_bool().unwrap_or(false) || sc.get("stop_after_ms").is_some() {
        // the hook events (end of run, result stored) are only needed where results are joined
        install_hook_sink(Some(Box::new(hook_map)));
    }
    let loops = sc["loops"].as_u64().unwrap() as usize;
    let max = sc["max"].as_u64().unwrap_or(64) as usize;
    let m = sc["submitters"].as_u64().unwrap();
    let n = sc["per"].as_u64().unwrap();
    let body = sc["body"].as_str().unwrap_or("trivial").to_string();
    let join = sc["join"].as_bool().unwrap_or(false);
    let join_ms = sc["join_ms"].as_u64().unwrap_or(400);
    let stop_after_ms = sc.get("stop_after_ms").and_then(Value::as_u64);
    let sleep_ms = sc["sleep_ms"].as_u64().unwrap_or(0);
    if sc["body"].as_str() == Some("duplex") {
        let mut fds = [0i32; 2];
        unsafe {
            libc::socketpair(libc::AF_UNIX, libc::SOCK_STREAM, 0, fds.as_mut_ptr());
            let tv = libc::timeval { tv_sec: (sleep_ms / 1000) as i64, tv_usec: ((sleep_ms % 1000) * 1000) as i64 };
            libc::setsockopt(fds[0], libc::SOL_SOCKET, libc::SO_RCVTIMEO, std::ptr::from_ref(&tv).cast(), size_of::<libc::timeval>() as u32);
        }
        let _ = DUPLEX.set((fds[0], fds[1]));
        // an observer outside the loop: half-way through the reader's wait every other task must long be asleep
        std::thread::spawn(move || {
            std::thread::sleep(Duration::from_millis(sleep_ms / 2));
            rec(json!({"ev": "mid"}));
        });
    }
    let total = m * n;
    // `late_loop_ms`: every loop thread is held at its very first instruction (a slow thread start);
    // `race_task`: the submitter of that task is held between the pool's state check and its push
    // until stop() has returned (or 300 ms have passed), and stop() is issued while it is held
    LATE_LOOP_MS.store(sc["late_loop_ms"].as_u64().unwrap_or(0), Ordering::SeqCst);
    RACE_TASK.store(sc["race_task"].as_u64().unwrap_or(0), Ordering::SeqCst);
    let race_task = RACE_TASK.load(Ordering::SeqCst);
    // `gap_every`: every k-th submission is held for 15 ms between the count and the insert of its push into the
    // shared queue, while the event loops keep polling (a pop that finds the count but not yet the item)
    GAP_EVERY.store(sc["gap_every"].as_u64().unwrap_or(0), Ordering::SeqCst);
    if LATE_LOOP_MS.load(Ordering::SeqCst) > 0 || race_task > 0 || GAP_EVERY.load(Ordering::SeqCst) > 0 {
        open_coroutine_core::common::verif::set_pause(Some(Box::new(|point| match point {
            "event_loop_thread_enter" => {
                let ms = LATE_LOOP_MS.load(Ordering::SeqCst);
                if ms > 0 {
                    std::thread::sleep(Duration::from_millis(ms));
                }
            }
            "shared_push_between_count_and_insert" => {
                let k = GAP_EVERY.load(Ordering::SeqCst);
                let t = CUR_TASK.with(std::cell::Cell::get);
                if k > 0 && t > 0 && t % k == 0 {
                    std::thread::sleep(Duration::from_millis(15));
                }
            }
            "pool_submit_between_check_and_push" => {
                let rt = RACE_TASK.load(Ordering::SeqCst);
                if rt > 0 && CUR_TASK.with(std::cell::Cell::get) == rt {
                    RACE_AT_GAP.store(true, Ordering::SeqCst);
                    let t0 = Instant::now();
                    while !STOP_DONE.load(Ordering::SeqCst) && t0.elapsed() < Duration::from_millis(300) {
                        std::thread::sleep(Duration::from_millis(1));
                    }
                    std::thread::sleep(Duration::from_millis(2));
                }
            }
            _ => {}
        })));
    }
    rec(json!({"ev": "ereset", "scenario": sc["id"], "loops": loops, "max": max, "tasks": total, "body": body}));
    let mut cfg = Config::single();
    cfg.set_event_loop_size(loops).set_max_size(max);
    EventLoops::init(&cfg);
    // coroutine creations that fail (a stack that cannot be mapped) before any task is submitted: a failed
    // creation must not use up a worker slot of the pool
    for _ in 0..sc["bad_spawns"].as_u64().unwrap_or(0) {
        let r = EventLoops::submit_co(|_, ()| None, Some(usize::MAX / 4), None);
        rec(json!({"ev": "bad_spawn", "ok": r.is_ok()}));
    }
    let t_start = Instant::now();
    let stopping = Arc::new(AtomicBool::new(false));
    let mut subs = vec![];
    for s in 0..m {
        let body = body.clone();
        let stopping = stopping.clone();
        subs.push(std::thread::spawn(move || {
            let mut handles = vec![];
            for i in 0..n {
                let t = s * n + i + 1;
                let prio = match t % 5 { 0 => i64::MIN, 1 => -1, 2 => 0, 3 => 1, _ => i64::MAX };
                let kind = if body == "mix" { ["trivial", "suspend", "delay", "panic", "trivial"][(t % 5) as usize] } else { body.as_str() }.to_string();
                CUR_TASK.with(|c| c.set(t));
                let h = EventLoops::submit_task(
                    Some(format!("t{t}-e2e")),
                    move |_| {
                        // record first, count second: the main thread writes `settled` (and leaves the
                        // process) as soon as the counter is complete, every run must be in the trace by then
                        rec(json!({"ev": "task_run", "task": t, "loop": loop_of_thread()}));
                        RAN.fetch_add(1, Ordering::SeqCst);
                        match kind.as_str() {
                            "suspend" => {
                                if let Some(s) = open_coroutine_core::scheduler::SchedulableSuspender::current() {
                                    s.suspend();
                                }
                            }
                            "delay" => {
                                if let Some(s) = open_coroutine_core::scheduler::SchedulableSuspender::current() {
                                    s.delay(Duration::from_millis(3));
                                }
                            }
                            "busy" => {
                                let t0 = Instant::now();
                                while t0.elapsed() < Duration::from_millis(2) {
                                    std::hint::spin_loop();
                                }
                            }
                            "sleep" => {
                                rec(json!({"ev": "sleep_b", "task": t}));
                                let _ = open_coroutine_core::syscall::usleep(None, (sleep_ms * 1000) as u32);
                                rec(json!({"ev": "sleep_e", "task": t}));
                            }
                            // a socket shared by a reader and a writer task of one loop (the ordinary full-duplex use): task 1
                            // is parked in a hooked recv for sleep_ms, task 2 sends on the same socket 20 ms later and then
                            // sleeps, the others sleep from 40 ms on - the parked reader must not keep the loop from running them
                            "duplex" => {
                                let (a, _b) = *DUPLEX.get().expect("duplex socket");
                                if t == 1 {
                                    let mut buf = [0u8; 8];
                                    rec(json!({"ev": "sleep_b", "task": t}));
                                    let r = open_coroutine_core::syscall::recv(None, a, buf.as_mut_ptr().cast(), 8, 0);
                                    rec(json!({"ev": "sleep_e", "task": t, "ret": r}));
                                } else {
                                    if let Some(s) = open_coroutine_core::scheduler::SchedulableSuspender::current() {
                                        s.delay(Duration::from_millis(if t == 2 { 20 } else { 40 }));
                                    }
                                    if t == 2 {
                                        let x = [7u8];
                                        let r = open_coroutine_core::syscall::send(None, a, x.as_ptr().cast(), 1, 0);
                                        rec(json!({"ev": "submitted", "task": t, "sent": r}));
                                    }
                                    rec(json!({"ev": "sleep_b", "task": t}));
                                    let _ = open_coroutine_core::syscall::usleep(None, 100_000);
                                    rec(json!({"ev": "sleep_e", "task": t}));
                                }
                            }
                            "recvwait" => {
                                // a hooked recv on an idle socket with a receive timeout: the coroutine is parked
                                let mut fds = [0i32; 2];
                                unsafe {
                                    libc::socketpair(libc::AF_UNIX, libc::SOCK_STREAM, 0, fds.as_mut_ptr());
                                    let tv = libc::timeval { tv_sec: (sleep_ms / 1000) as i64, tv_usec: ((sleep_ms % 1000) * 1000) as i64 };
                                    libc::setsockopt(fds[0], libc::SOL_SOCKET, libc::SO_RCVTIMEO, std::ptr::from_ref(&tv).cast(), size_of::<libc::timeval>() as u32);
                                }
                                let mut buf = [0u8; 8];
                                rec(json!({"ev": "sleep_b", "task": t}));
                                let r = open_coroutine_core::syscall::recv(None, fds[0], buf.as_mut_ptr().cast(), 8, 0);
                                rec(json!({"ev": "sleep_e", "task": t, "ret": r}));
                            }
                            "panic" => panic!("p{t}"),
                            _ => {}
                        }
                        Some(1000 + t as usize)
                    },
                    None,
                    Some(prio),
                );
                let ok = h.id().is_ok();
                rec(json!({"ev": "submit_e", "task": t, "ok": ok, "during_stop": stopping.load(Ordering::SeqCst)}));
                if ok {
                    handles.push((t, H(h)));
                } else {
                    drop(h);
                }
            }
            handles
        }));
    }
    // optional concurrent stop
    let stopper = stop_after_ms.map(|ms| {
        let stopping = stopping.clone();
        std::thread::spawn(move || {
            if race_task > 0 {
                // stop while the designated submitter sits between check and push
                let t0 = Instant::now();
                while !RACE_AT_GAP.load(Ordering::SeqCst) && t0.elapsed() < Duration::from_millis(2000) {
                    std::thread::sleep(Duration::from_micros(200));
                }
            } else {
                std::thread::sleep(Duration::from_millis(ms));
            }
            stopping.store(true, Ordering::SeqCst);
            rec(json!({"ev": "stop_b", "limit": 3000}));
            let t0 = Instant::now();
            let r = EventLoops::stop(Duration::from_millis(3000));
            rec(json!({"ev": "stop_e", "ok": r.is_ok(), "ms": t0.elapsed().as_millis() as u64, "limit": 3000}));
            STOP_DONE.store(true, Ordering::SeqCst);
        })
    });
    // submitters must come back: a submission never blocks for long
    let mut all: Vec<(u64, H)> = vec![];
    let deadline = Instant::now() + Duration::from_millis(sc["submit_limit_ms"].as_u64().unwrap_or(5000));
    let mut hung = false;
    for (s, h) in subs.into_iter().enumerate() {
        loop {
            if h.is_finished() {
                match h.join() {
                    Ok(v) => all.extend(v),
                    Err(e) => rec(json!({"ev": "died", "how": "panic", "msg": panic_msg(&e), "scenario": sc["id"], "step": 0})),
                }
                break;
            }
            if Instant::now() > deadline {
                rec(json!({"ev": "submit_hang", "th": s + 1}));
                hung = true;
                break;
            }
            std::thread::sleep(Duration::from_millis(2));
        }
    }
    rec(json!({"ev": "submitted", "ms": t_start.elapsed().as_millis() as u64, "hung": hung}));
    if join && !hung {
        // join every handle from a few joiner threads
        let chunks: Vec<Vec<(u64, H)>> = {
            let mut c: Vec<Vec<_>> = (0..4).map(|_| vec![]).collect();
            for (i, x) in all.drain(..).enumerate() {
                c[i % 4].push(x);
            }
            c
        };
        let js: Vec<_> = chunks.into_iter().map(|c| std::thread::spawn(move || {
            for (t, h) in c {
                let t0 = Instant::now();
                let r = h.0.timeout_join(Duration::from_millis(join_ms));
                let ms = t0.elapsed().as_millis() as u64;
                // `tr`: the moment the join came back, on the trace clock (the record itself may be
                // written later if this thread loses the CPU)
                let tr = mono_ns() / 1000;
                match r {
                    Ok(Ok(v)) => rec(json!({"ev": "join_e", "task": t, "out": "ok", "v": v.unwrap_or(0), "ms": ms, "limit": join_ms, "tr": tr})),
                    Ok(Err(m)) => rec(json!({"ev": "join_e", "task": t, "out": "err", "v": m.strip_prefix('p').and_then(|x| x.parse::<u64>().ok()).unwrap_or(0), "msg": m, "ms": ms, "limit": join_ms, "tr": tr})),
                    Err(e) => rec(json!({"ev": "join_e", "task": t, "out": if e.kind() == std::io::ErrorKind::TimedOut { "timeout" } else { "error" }, "v": 0, "ms": ms, "limit": join_ms, "tr": tr})),
                }
                std::mem::forget(h);
            }
        })).collect();
        for j in js {
            let _ = j.join();
        }
    } else {
        // keep the handles alive (dropping a handle edits the cancel / no-wait sets)
        std::mem::forget(all);
    }
    // settle: the loops keep polling; wait until every task ran or nothing moves for a while
    let mut last = RAN.load(Ordering::SeqCst);
    let mut still = 0;
    while RAN.load(Ordering::SeqCst) < total && still < 30 && stopper.is_none() && !hung {
        std::thread::sleep(Duration::from_millis(10));
        let now = RAN.load(Ordering::SeqCst);
        if now == last { still += 1; } else { still = 0; last = now; }
    }
    if let Some(s) = stopper {
        let _ = s.join();
    }
    rec(json!({"ev": "settled", "ran": RAN.load(Ordering::SeqCst), "total": total, "ms": t_start.elapsed().as_millis() as u64}));
    rec(json!({"ev": "eend", "scenario": sc["id"]}));
    flush();
    unsafe { libc::_exit(0) };
}

fn main() {
    isolated_main("ereset", "eend", 20_000, 3, run_scenario);
}
