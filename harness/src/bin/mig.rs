//! Driver for Migrate.tla: coroutines that yield and are taken over by other scheduling threads
//! (schedulers steal from each other's ready queues), observed through `Suspender::current()`.
//! T scheduling threads, each with its own Scheduler; thread 1 submits every coroutine; each body
//! yields `susp` times through its own suspender and records, at its start and after every
//! resumption, on which thread it runs and whose suspender `SchedulableSuspender::current()` is there.
//! Between passes every thread records what its (then idle) "current suspender" is.
//! One process per scenario; a crash or hang of the process is data.
use ocverif::*;
use open_coroutine_core::scheduler::{SchedulableCoroutine, SchedulableSuspender, Scheduler};
use serde_json::{json, Value};
use std::collections::HashMap;
use std::sync::atomic::{AtomicU64, Ordering};
use std::sync::Mutex;
use std::time::{Duration, Instant};

static DONE: AtomicU64 = AtomicU64::new(0);
static GO: std::sync::atomic::AtomicBool = std::sync::atomic::AtomicBool::new(false);
static OWNERS: Mutex<Option<HashMap<usize, i64>>> = Mutex::new(None);

fn spin(n: u64) -> u64 {
    let mut s = 0u64;
    for i in 0..n {
        s = s.wrapping_mul(6364136223846793005).wrapping_add(i ^ (s >> 13));
        std::hint::black_box(&mut s);
    }
    s
}

/// (never inlined: the observer must compute the address of the thread-local afresh on the thread it
/// runs on now, not reuse one computed before a stack switch)
/// id of the coroutine whose suspender is the thread's current one: 0 = none, -1 = a pointer no live body owns
#[inline(never)]
fn current_owner() -> i64 {
    match SchedulableSuspender::current() {
        None => 0,
        Some(s) => {
            let p = s as *const _ as usize;
            OWNERS.lock().unwrap().as_ref().and_then(|m| m.get(&p).copied()).unwrap_or(-1)
        }
    }
}

fn run_scenario(sc: &Value) {
    let threads = sc["threads"].as_u64().unwrap();
    let cos = sc["cos"].as_u64().unwrap();
    let susp = sc["susp"].as_u64().unwrap();
    let work = sc["work"].as_u64().unwrap_or(2000);
    // stopper: the last coroutine of thread 1 opens the gate for the other threads and then blocks its
    // thread for `stop_ms`, so that the coroutines that have yielded once and wait behind it in thread 1's
    // ready queue are stolen - and resumed - by the other threads: every such resumption is a migration
    let stop_ms = sc["stop_ms"].as_u64().unwrap_or(0);
    let total = cos + u64::from(stop_ms > 0);
    GO.store(stop_ms == 0, Ordering::SeqCst);
    *OWNERS.lock().unwrap() = Some(HashMap::new());
    rec(json!({"ev": "greset", "scenario": sc["id"], "threads": threads, "cos": cos, "susp": susp, "stop_ms": stop_ms}));
    let start = std::sync::Arc::new(std::sync::Barrier::new(threads as usize));
    let mut hs = vec![];
    for th in 1..=threads {
        let start = start.clone();
        hs.push(std::thread::spawn(move || {
            let mut sch = Scheduler::new(format!("mig-{th}"), 128 * 1024);
            if th == 1 {
                for c in 1..=cos {
                    let co = SchedulableCoroutine::new(
                        Some(format!("g-{c}")),
                        move |s, ()| {
                            let me = s as *const _ as usize;
                            OWNERS.lock().unwrap().as_mut().unwrap().insert(me, c as i64);
                            rec(json!({"ev": "g_body", "co": c, "k": 0, "tid": tid(), "cur": current_owner()}));
                            for k in 1..=susp {
                                std::hint::black_box(spin(work));
                                s.suspend();
                                rec(json!({"ev": "g_body", "co": c, "k": k, "tid": tid(), "cur": current_owner()}));
                            }
                            std::hint::black_box(spin(work));
                            rec(json!({"ev": "g_fin", "co": c, "tid": tid(), "cur": current_owner()}));
                            OWNERS.lock().unwrap().as_mut().unwrap().remove(&me);
                            Some(c as usize)
                        },
                        None,
                        None,
                    )
                    .expect("coroutine");
                    sch.submit_raw_co(co).expect("submit");
                }
                if stop_ms > 0 {
                    let b = SchedulableCoroutine::new(
                        Some("stopper".to_string()),
                        move |_, ()| {
                            GO.store(true, Ordering::SeqCst);
                            std::thread::sleep(Duration::from_millis(stop_ms));
                            Some(0)
                        },
                        None,
                        None,
                    )
                    .expect("coroutine");
                    sch.submit_raw_co(b).expect("submit");
                }
            }
            start.wait();
            while th != 1 && !GO.load(Ordering::SeqCst) {
                std::thread::yield_now();
            }
            let t0 = Instant::now();
            let mut done = 0u64;
            let mut stale_logged = false;
            while DONE.load(Ordering::SeqCst) < total && t0.elapsed() < Duration::from_secs(5) {
                if let Ok((_, results)) = sch.try_timed_schedule(Duration::from_millis(2)) {
                    done += results.len() as u64;
                    DONE.fetch_add(results.len() as u64, Ordering::SeqCst);
                }
                let cur = current_owner();
                if cur != 0 && !stale_logged {
                    stale_logged = true;
                    rec(json!({"ev": "g_idle", "tid": tid(), "cur": cur}));
                }
            }
            rec(json!({"ev": "g_idle", "tid": tid(), "cur": current_owner()}));
            rec(json!({"ev": "g_thread", "tid": tid(), "done": done, "all": DONE.load(Ordering::SeqCst), "want": total}));
            std::mem::forget(sch);
        }));
    }
    for h in hs {
        if let Err(e) = h.join() {
            rec(json!({"ev": "died", "how": "panic", "msg": panic_msg(&e), "scenario": sc["id"], "step": 0}));
        }
    }
    rec(json!({"ev": "gend", "scenario": sc["id"]}));
    flush();
    unsafe { libc::_exit(0) };
}

fn main() {
    isolated_main("greset", "gend", 12_000, 4, run_scenario);
}
