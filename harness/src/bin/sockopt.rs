//! Driver for socket time-limit tracking (property C19): histories of spec/SockOpt.tla
//! (socket / dup / setopt / io / close over reusable descriptor numbers) on real sockets through the
//! hooked setsockopt / close and the limit functions the hooked I/O calls apply. One process per
//! scenario (an abort is data).
use ocverif::*;
use open_coroutine_core::config::Config;
use open_coroutine_core::net::EventLoops;
use open_coroutine_core::syscall;
use serde_json::{json, Value};
use std::collections::HashMap;
use std::ffi::c_int;

fn kernel_ms(fd: c_int, name: c_int) -> i64 {
    unsafe {
        let mut tv: libc::timeval = std::mem::zeroed();
        let mut len = size_of::<libc::timeval>() as u32;
        if libc::getsockopt(fd, libc::SOL_SOCKET, name, std::ptr::from_mut(&mut tv).cast(), &mut len) != 0 {
            return -2;
        }
        tv.tv_sec * 1000 + tv.tv_usec / 1000
    }
}

fn run_scenario(sc: &Value) {
    rec(json!({"ev": "oreset", "scenario": sc["id"]}));
    EventLoops::init(&Config::single());
    let mut fds: HashMap<u64, c_int> = HashMap::new();
    let tvs = [0i64, 50, 1000];
    for (i, op) in sc["hist"].as_array().unwrap().iter().enumerate() {
        let slot = op["fd"].as_u64().unwrap();
        let kind = op["op"].as_str().unwrap();
        rec(json!({"ev": "op", "i": i, "op": kind, "slot": slot}));
        match kind {
            "socket" => {
                let fd = unsafe { libc::socket(libc::AF_UNIX, libc::SOCK_STREAM, 0) };
                assert!(fd >= 0);
                fds.insert(slot, fd);
                rec(json!({"ev": "op", "i": i, "op": "socket_fd", "slot": slot, "fdnum": fd}));
            }
            // a second number for the socket behind slot `from` (what TcpStream::try_clone does)
            "dup" => {
                let from = op["from"].as_u64().unwrap();
                let fd = unsafe { libc::dup(fds[&from]) };
                assert!(fd >= 0);
                fds.insert(slot, fd);
                rec(json!({"ev": "op", "i": i, "op": "dup_fd", "slot": slot, "fdnum": fd}));
            }
            "setopt" => {
                let fd = fds[&slot];
                let ms = tvs[op["tv"].as_u64().unwrap() as usize % 3];
                let tv = libc::timeval { tv_sec: ms / 1000, tv_usec: (ms % 1000) * 1000 };
                let name = if op["dir"] == "snd" { libc::SO_SNDTIMEO } else { libc::SO_RCVTIMEO };
                let r = syscall::setsockopt(None, fd, libc::SOL_SOCKET, name, std::ptr::from_ref(&tv).cast(), size_of::<libc::timeval>() as u32);
                rec(json!({"ev": "op", "i": i, "op": "setopt_ret", "slot": slot, "ret": r}));
            }
            "io" => {
                let fd = fds[&slot];
                let snd = op["dir"] == "snd";
                let applied = if snd { syscall::send_time_limit(fd) } else { syscall::recv_time_limit(fd) };
                let kernel = kernel_ms(fd, if snd { libc::SO_SNDTIMEO } else { libc::SO_RCVTIMEO });
                let applied_ms: i64 = if applied == u64::MAX { -1 } else { (applied / 1_000_000) as i64 };
                rec(json!({"ev": "limit", "slot": slot, "dir": op["dir"], "applied": applied_ms, "kernel": kernel}));
            }
            "close" => {
                let fd = fds.remove(&slot).unwrap();
                let r = syscall::close(None, fd);
                rec(json!({"ev": "op", "i": i, "op": "close_ret", "slot": slot, "ret": r}));
            }
            other => panic!("unknown op {other}"),
        }
    }
    rec(json!({"ev": "oend", "scenario": sc["id"]}));
    flush();
    unsafe { libc::_exit(0) };
}

fn main() {
    isolated_main("oreset", "oend", 5000, 14, run_scenario);
}
