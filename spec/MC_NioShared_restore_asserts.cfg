SPECIFICATION Spec
CONSTANTS
  Callers = {"r", "w", "x"}
  MaxEnters = 2
  Deviations = {"restore_asserts"}
INVARIANTS CallersModeRespected NonblockNeverWaits ModeRestoredWhenQuiet NeverAsksBlocking NoAbort
CHECK_DEADLOCK FALSE
