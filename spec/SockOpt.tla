------------------------------- MODULE SockOpt -------------------------------
(* Socket time-limit tracking (property C19): core/src/syscall/unix/mod.rs     *)
(* (send_time_limit / recv_time_limit with their caches), setsockopt.rs and    *)
(* close.rs.  Descriptor *numbers* are reused after close, and several numbers *)
(* can belong to one socket (dup - TcpStream::try_clone): the options are the  *)
(* socket's.  sock[f] is the socket behind number f (0 = closed; socket        *)
(* identities - inode numbers - are reused as well), kern[s][dir] the socket's *)
(* option value in the kernel (0 = no timeout), cacheS / cacheN what the       *)
(* runtime remembers per socket / per number (-1 = no entry).                  *)
(* Intended design (Deviations = {}): what is remembered is remembered for the *)
(* socket, and forgotten whenever one of its numbers is closed (the last close *)
(* frees the identity for reuse; which close is the last cannot be known).     *)
(* Named deviations:                                                           *)
(*   "setopt_assert"      setting an option whose cache entry exists aborts    *)
(*                        (code before the first round's fix)                  *)
(*   "close_keeps_cache"  close leaves the entries, a reused number / identity *)
(*                        starts with the old socket's limits                  *)
(*   "cache_per_number"   the entries belong to the number (code before the    *)
(*                        third round's fix): an option set through one number *)
(*                        is not seen by calls on another number of the socket *)
EXTENDS Naturals, Integers, Sequences, FiniteSets, TLC, Json

CONSTANTS Fds, Tvs, MaxOps, Deviations   \* Tvs: option values, 0 = none
Dirs == {"snd", "rcv"}
Socks == 1..Cardinality(Fds)
PerNumber == "cache_per_number" \in Deviations
VARIABLES sock, kern, cacheS, cacheN, dead, viol, hist
vars == <<sock, kern, cacheS, cacheN, dead, viol, hist>>
view == <<sock, kern, cacheS, cacheN, dead, viol, Len(hist)>>

None == [d \in Dirs |-> -1]
Init == /\ sock = [f \in Fds |-> 0] /\ kern = [s \in Socks |-> [d \in Dirs |-> 0]]
        /\ cacheS = [s \in Socks |-> None] /\ cacheN = [f \in Fds |-> None]
        /\ dead = FALSE /\ viol = "none" /\ hist = <<>>
Go == ~dead /\ viol = "none" /\ Len(hist) < MaxOps
Open(f) == sock[f] # 0
Live == {sock[f] : f \in {g \in Fds : Open(g)}}
LowestFree(f) == ~Open(f) /\ \A g \in Fds : g < f => Open(g)
Cached(f, d) == IF PerNumber THEN cacheN[f][d] ELSE cacheS[sock[f]][d]
Remember(f, d, v) == IF PerNumber THEN cacheN' = [cacheN EXCEPT ![f][d] = v] /\ UNCHANGED cacheS
                     ELSE cacheS' = [cacheS EXCEPT ![sock[f]][d] = v] /\ UNCHANGED cacheN

Socket(f) == /\ Go /\ LowestFree(f)
             /\ LET s == CHOOSE x \in Socks : x \notin Live /\ \A y \in Socks : y < x => y \in Live IN
                sock' = [sock EXCEPT ![f] = s] /\ kern' = [kern EXCEPT ![s] = [d \in Dirs |-> 0]]
             /\ hist' = Append(hist, [op |-> "socket", fd |-> f])
             /\ UNCHANGED <<cacheS, cacheN, dead, viol>>
\* a second number for the socket behind g
Dup(f, g) == /\ Go /\ LowestFree(f) /\ Open(g)
             /\ sock' = [sock EXCEPT ![f] = sock[g]]
             /\ hist' = Append(hist, [op |-> "dup", fd |-> f, from |-> g])
             /\ UNCHANGED <<kern, cacheS, cacheN, dead, viol>>
SetOpt(f, d, tv) ==
  /\ Go /\ Open(f)
  /\ hist' = Append(hist, [op |-> "setopt", fd |-> f, dir |-> d, tv |-> tv])
  /\ kern' = [kern EXCEPT ![sock[f]][d] = tv]
  /\ IF "setopt_assert" \in Deviations /\ Cached(f, d) # -1
     THEN dead' = TRUE /\ viol' = "abort" /\ UNCHANGED <<cacheS, cacheN>>
     ELSE Remember(f, d, tv) /\ UNCHANGED <<dead, viol>>
  /\ UNCHANGED sock
\* a hooked call applies the limit of its direction (and remembers it)
Io(f, d) ==
  /\ Go /\ Open(f)
  /\ hist' = Append(hist, [op |-> "io", fd |-> f, dir |-> d])
  /\ LET applied == IF Cached(f, d) = -1 THEN kern[sock[f]][d] ELSE Cached(f, d) IN
     /\ viol' = IF applied # kern[sock[f]][d] THEN "stale_limit" ELSE viol
     /\ Remember(f, d, applied)
  /\ UNCHANGED <<sock, kern, dead>>
Close(f) ==
  /\ Go /\ Open(f)
  /\ hist' = Append(hist, [op |-> "close", fd |-> f])
  /\ sock' = [sock EXCEPT ![f] = 0]
  /\ IF "close_keeps_cache" \in Deviations THEN UNCHANGED <<cacheS, cacheN>>
     ELSE IF PerNumber THEN cacheN' = [cacheN EXCEPT ![f] = None] /\ UNCHANGED cacheS
     ELSE cacheS' = [cacheS EXCEPT ![sock[f]] = None] /\ UNCHANGED cacheN
  /\ UNCHANGED <<kern, dead, viol>>
Next == \E f \in Fds : \/ Socket(f) \/ Close(f)
                       \/ \E g \in Fds : Dup(f, g)
                       \/ \E d \in Dirs : Io(f, d) \/ \E tv \in Tvs : SetOpt(f, d, tv)
Spec == Init /\ [][Next]_vars

\* C19: the limit a hooked call applies is the socket's current option value; nothing aborts
NoViolation == viol = "none"
CacheSound == \A f \in Fds, d \in Dirs : (Open(f) /\ Cached(f, d) # -1) => Cached(f, d) = kern[sock[f]][d]
DumpHist == (Len(hist) = MaxOps) => PrintT(<<"REPLAY", ToJson(hist)>>)
=============================================================================
