------------------------------- MODULE SockOpt -------------------------------
(* Socket time-limit tracking (property C19): core/src/syscall/unix/mod.rs     *)
(* (send_time_limit / recv_time_limit with their per-descriptor caches),       *)
(* setsockopt.rs and close.rs.  Descriptor *numbers* are reused after close.   *)
(* kern[fd][dir] is the socket's option value in the kernel (0 = no timeout),  *)
(* cache[fd][dir] what the runtime remembers (-1 = no entry).              *)
(* Named deviations (code before the fix):                                     *)
(*   "setopt_assert"      setting an option whose cache entry exists aborts    *)
(*   "close_keeps_cache"  close leaves the entries, a reused number starts     *)
(*                        with the old socket's limits                         *)
EXTENDS Naturals, Integers, Sequences, FiniteSets, TLC, Json

CONSTANTS Fds, Tvs, MaxOps, Deviations   \* Tvs: option values, 0 = none
Dirs == {"snd", "rcv"}
VARIABLES open, kern, cache, dead, viol, hist
vars == <<open, kern, cache, dead, viol, hist>>
view == <<open, kern, cache, dead, viol, Len(hist)>>

Init == /\ open = [f \in Fds |-> FALSE] /\ kern = [f \in Fds |-> [d \in Dirs |-> 0]]
        /\ cache = [f \in Fds |-> [d \in Dirs |-> -1]] /\ dead = FALSE /\ viol = "none" /\ hist = <<>>
Go == ~dead /\ viol = "none" /\ Len(hist) < MaxOps

Socket(f) == /\ Go /\ ~open[f] /\ \A g \in Fds : g < f => open[g]      \* lowest free number
             /\ open' = [open EXCEPT ![f] = TRUE] /\ kern' = [kern EXCEPT ![f] = [d \in Dirs |-> 0]]
             /\ hist' = Append(hist, [op |-> "socket", fd |-> f])
             /\ UNCHANGED <<cache, dead, viol>>
SetOpt(f, d, tv) ==
  /\ Go /\ open[f]
  /\ hist' = Append(hist, [op |-> "setopt", fd |-> f, dir |-> d, tv |-> tv])
  /\ kern' = [kern EXCEPT ![f][d] = tv]
  /\ IF "setopt_assert" \in Deviations /\ cache[f][d] # -1
     THEN dead' = TRUE /\ viol' = "abort" /\ UNCHANGED cache
     ELSE cache' = [cache EXCEPT ![f][d] = tv] /\ UNCHANGED <<dead, viol>>
  /\ UNCHANGED open
\* a hooked call applies the limit of its direction (and remembers it)
Io(f, d) ==
  /\ Go /\ open[f]
  /\ hist' = Append(hist, [op |-> "io", fd |-> f, dir |-> d])
  /\ LET applied == IF cache[f][d] = -1 THEN kern[f][d] ELSE cache[f][d] IN
     /\ viol' = IF applied # kern[f][d] THEN "stale_limit" ELSE viol
     /\ cache' = [cache EXCEPT ![f][d] = applied]
  /\ UNCHANGED <<open, kern, dead>>
Close(f) ==
  /\ Go /\ open[f]
  /\ hist' = Append(hist, [op |-> "close", fd |-> f])
  /\ open' = [open EXCEPT ![f] = FALSE]
  /\ cache' = IF "close_keeps_cache" \in Deviations THEN cache ELSE [cache EXCEPT ![f] = [d \in Dirs |-> -1]]
  /\ UNCHANGED <<kern, dead, viol>>
Next == \E f \in Fds : Socket(f) \/ Close(f) \/ \E d \in Dirs : Io(f, d) \/ \E tv \in Tvs : SetOpt(f, d, tv)
Spec == Init /\ [][Next]_vars

\* C19: the limit a hooked call applies is the socket's current option value; nothing aborts
NoViolation == viol = "none"
CacheSound == \A f \in Fds, d \in Dirs : (open[f] /\ cache[f][d] # -1) => cache[f][d] = kern[f][d]
DumpHist == (Len(hist) = MaxOps) => PrintT(<<"REPLAY", ToJson(hist)>>)
=============================================================================
