SPECIFICATION Spec
CONSTANTS
  Threads = {1, 2, 3}
  MaxOps = 3
  Deviations = {"pop_claims_first"}
INVARIANTS Conserve QuiescentLenExact NeverStranded NoUnderflow
CHECK_DEADLOCK FALSE
