--------------------------- MODULE MC_SelectorRace ---------------------------
EXTENDS SelectorRace
\* every pair of operations on different interests, from every starting registration
OpsAddAdd == {<<"a", "addR">>, <<"b", "addW">>}
OpsDelAdd == {<<"a", "delW">>, <<"b", "addR">>}
OpsDelDel == {<<"a", "delR">>, <<"b", "delW">>}
OpsSame == {<<"a", "addR">>, <<"b", "addR">>}
=============================================================================
