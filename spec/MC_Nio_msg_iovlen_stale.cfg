SPECIFICATION Spec
CONSTANTS
  Shapes <- ShapesSmall
  MaxN = 3
  MaxCalls = 4
  Deviations = {"msg_iovlen_stale"}
INVARIANTS RequestOK ReturnOK NonblockNeverWaits
CHECK_DEADLOCK FALSE
