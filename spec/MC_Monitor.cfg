SPECIFICATION Spec
CONSTANTS
  Threads = {1, 2}
  MaxT = 6
  Slice = 2
  Deviations = {}
INVARIANTS NotCorrupt SyscallNeverPreempted BusyPreempted NoSelfDeadlock
CHECK_DEADLOCK FALSE
