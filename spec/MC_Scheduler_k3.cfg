SPECIFICATION Spec
CONSTANTS
  NCo = 3
  MaxSteps = 2
  MaxT = 4
  MaxOps = 12
  Deviations = {}
VIEW view
INVARIANTS NoViolation ResultOnce ReadyExact
PROPERTIES OthersUnaffected
CHECK_DEADLOCK FALSE
