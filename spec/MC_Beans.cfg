SPECIFICATION Spec
CONSTANTS
  Threads = {1, 2, 3}
  Deviations = {}
VIEW view
INVARIANTS Unique Agree
CHECK_DEADLOCK FALSE
