--------------------------- MODULE WorkStealQueue ---------------------------
(* Design model of open-coroutine's work-steal queues                        *)
(*   core/src/common/ordered_work_steal.rs  (Ordered = TRUE)                 *)
(*   core/src/common/work_steal.rs          (Ordered = FALSE, one priority)  *)
(* driven by ONE thread that owns every local queue (the "single driver"     *)
(* histories of properties C04, C05, C06 and the sequential part of C03).    *)
(* Every public operation is one action that transcribes the algorithm of    *)
(* the code: full test, spill loop, tick, local pop, sibling scan, steal     *)
(* count, shared fallback and the two length counters.                       *)
(*                                                                           *)
(* Named deviations (constant Deviations):                                   *)
(*   "stale_local_len"  the per-local-queue counter of the ordered queue is  *)
(*                      a separate field that a sibling's steal does not     *)
(*                      update (code before the fix: commit).                *)
(*   "consult_needs_room"  the periodic look at the shared queue is made   *)
(*                      only while the local queue may steal (at most half  *)
(*                      full): a busy queue above half starves the shared   *)
(*                      items (seed C06-2).                                  *)
(* With Deviations = {} the local length is derived from the workers.        *)
EXTENDS WSQObs, TLC, Json

CONSTANTS NQ,          \* number of local queues
          Cap,         \* configured local capacity
          Prios,       \* priorities in use (a set of integers)
          Period,      \* the shared queue is consulted every Period-th pop (61)
          MaxItems,    \* items are 1..MaxItems, pushed in increasing order
          MaxOps,      \* bound on the history length
          Ordered,     \* TRUE: OrderedWorkStealQueue, FALSE: WorkStealQueue
          Deviations

VARIABLES shared,   \* location: the shared (injector) queue
          glen,     \* its length counter (`len`)
          local,    \* [1..NQ -> location]
          llen,     \* [1..NQ -> Nat] length counter field of OrderedLocalQueue
          tick,     \* [1..NQ -> Nat]
          out,      \* set of items popped so far
          nxt,      \* next fresh item
          since,    \* [1..NQ -> Nat]  C06 starvation counter
          viol,     \* name of the violated clause, "none" otherwise
          hist      \* history of operations (inputs only), for replay

vars == <<shared, glen, local, llen, tick, out, nxt, since, viol, hist>>
view == <<shared, glen, local, llen, tick, out, nxt, since, viol, Len(hist)>>

Q == 1..NQ
WCap == Pow2Up(Cap)                       \* real capacity of one st3 worker
EffCap == IF Ordered THEN Cap ELSE WCap   \* what "full" is measured against
Half == (EffCap + 1) \div 2

\* the length a local queue believes it has
LLen(q) == IF Ordered /\ "stale_local_len" \in Deviations THEN llen[q] ELSE Len(local[q])

PriosDesc == LET RECURSIVE S(_)
                 S(ps) == IF ps = {} THEN <<>>
                          ELSE LET m == CHOOSE x \in ps : \A y \in ps : y <= x IN <<m>> \o S(ps \ {m})
             IN S(Prios)

\* one pass of the spill loop: walk the priorities from the largest value down,
\* popping one (oldest) item from each non-empty worker
RECURSIVE SpillPass(_, _, _, _)
SpillPass(loc, ps, k, acc) ==
  IF k = 0 \/ ps = <<>> THEN <<loc, acc, k>>
  ELSE LET i == FirstOfPrio(loc, Head(ps)) IN
       IF i = 0 THEN SpillPass(loc, Tail(ps), k, acc)
       ELSE SpillPass(RemoveAt(loc, i), Tail(ps), k - 1, Append(acc, loc[i]))

\* `while done < count`: returns <<loc', moved, remaining>>; remaining > 0 with an
\* empty location is the spin of property C04
RECURSIVE SpillAll(_, _, _)
SpillAll(loc, k, acc) ==
  IF k = 0 \/ loc = <<>> THEN <<loc, acc, k>>
  ELSE LET r == SpillPass(loc, PriosDesc, k, acc) IN SpillAll(r[1], r[3], r[2])

AllEmpty == shared = <<>> /\ \A q \in Q : local[q] = <<>>

Init ==
  /\ shared = <<>> /\ glen = 0
  /\ local = [q \in Q |-> <<>>] /\ llen = [q \in Q |-> 0] /\ tick = [q \in Q |-> 0]
  /\ out = {} /\ nxt = 1 /\ since = [q \in Q |-> 0]
  /\ viol = "none" /\ hist = <<>>

CanOp == viol = "none" /\ Len(hist) < MaxOps

------------------------------------------------------------------------------
GPush(p) ==
  /\ CanOp /\ nxt <= MaxItems
  /\ shared' = Append(shared, [item |-> nxt, prio |-> p])
  /\ glen' = glen + 1
  /\ nxt' = nxt + 1
  /\ hist' = Append(hist, [op |-> "gpush", item |-> nxt, prio |-> p])
  /\ UNCHANGED <<local, llen, tick, out, since, viol>>

GPop ==
  /\ CanOp
  /\ hist' = Append(hist, [op |-> "gpop"])
  /\ IF glen = 0 \/ shared = <<>>
     THEN /\ viol' = IF shared # <<>> THEN "gpop_empty" ELSE viol
          /\ UNCHANGED <<shared, glen, out>>
     ELSE /\ out' = out \cup {Best(shared).item}
          /\ shared' = RemoveAt(shared, BestIdx(shared))
          /\ glen' = SatSub(glen, 1)
          /\ UNCHANGED viol
  /\ UNCHANGED <<local, llen, tick, nxt, since>>

LPush(q, p) ==
  /\ CanOp /\ nxt <= MaxItems
  /\ hist' = Append(hist, [op |-> "lpush", q |-> q, item |-> nxt, prio |-> p])
  /\ nxt' = nxt + 1
  /\ LET x == [item |-> nxt, prio |-> p]
         full == IF Ordered THEN LLen(q) >= Cap \/ CountPrio(local[q], p) >= WCap
                 ELSE Len(local[q]) >= WCap
     IN IF ~full
        THEN /\ local' = [local EXCEPT ![q] = Append(@, x)]
             /\ llen' = [llen EXCEPT ![q] = LLen(q) + 1]
             /\ UNCHANGED <<shared, glen, viol>>
        ELSE LET count == LLen(q) \div 2
                 r == SpillAll(local[q], count, <<>>)
             IN IF r[3] > 0
                THEN /\ viol' = "spin"     \* `while done < count` can never finish
                     /\ UNCHANGED <<shared, glen, local, llen>>
                ELSE /\ local' = [local EXCEPT ![q] = r[1]]
                     /\ llen' = [llen EXCEPT ![q] = SatSub(LLen(q), count)]
                     /\ shared' = (shared \o r[2]) \o <<x>>
                     /\ glen' = glen + count + 1
                     /\ viol' = IF Len(local[q]) < Cap THEN "early_spill" ELSE viol
  /\ UNCHANGED <<tick, out, since>>

\* the sibling scan of pop(): first victim (in scan order from s) with a
\* non-empty worker; 0 if the scan gives up
RECURSIVE Scan(_, _, _)
Scan(q, i, n) ==
  IF n = 0 THEN 0
  ELSE IF ~(LLen(q) < Half) THEN 0
  ELSE IF local[i] # <<>> /\ i # q THEN i
  ELSE Scan(q, (i % NQ) + 1, n - 1)

LPop(q, s) ==
  /\ CanOp
  /\ hist' = Append(hist, [op |-> "lpop", q |-> q])
  /\ tick' = [tick EXCEPT ![q] = @ + 1]
  /\ LET t == tick[q] + 1
         consult == (t % Period = 0) /\ glen > 0 /\ shared # <<>>
                    /\ ("consult_needs_room" \notin Deviations \/ LLen(q) < Half)
         sharedWaiting == shared # <<>>
     IN IF consult
        THEN /\ out' = out \cup {Best(shared).item}
             /\ shared' = RemoveAt(shared, BestIdx(shared))
             /\ glen' = SatSub(glen, 1)
             /\ since' = [since EXCEPT ![q] = 0]
             /\ UNCHANGED <<local, llen, viol>>
        ELSE IF local[q] # <<>>
        THEN /\ out' = out \cup {Best(local[q]).item}
             /\ local' = [local EXCEPT ![q] = RemoveAt(@, BestIdx(@))]
             /\ llen' = [llen EXCEPT ![q] = SatSub(LLen(q), 1)]
             /\ since' = [since EXCEPT ![q] = IF sharedWaiting THEN @ + 1 ELSE 0]
             /\ viol' = IF sharedWaiting /\ since[q] + 1 >= Period THEN "starved" ELSE viol
             /\ UNCHANGED <<shared, glen>>
        ELSE LET v == Scan(q, s, NQ) IN
             IF v # 0
             THEN LET p == Best(local[v]).prio
                      avail == CountPrio(local[v], p)
                      n == Min2(Min2(avail, SatSub(Half, LLen(q))), Min2((avail + 1) \div 2, WCap))
                      tk == TakePrio(local[v], p, n, <<>>)
                      mine == tk[2]
                  IN /\ out' = out \cup {mine[1].item}
                     /\ local' = [local EXCEPT ![v] = tk[1], ![q] = Tail(mine)]
                     /\ llen' = [llen EXCEPT ![q] = SatSub(LLen(q) + n, 1)]
                     /\ since' = [since EXCEPT ![q] = IF sharedWaiting THEN @ + 1 ELSE 0]
                     /\ viol' = IF sharedWaiting /\ since[q] + 1 >= Period THEN "starved" ELSE viol
                     /\ UNCHANGED <<shared, glen>>
             ELSE IF glen > 0 /\ shared # <<>>
             THEN /\ out' = out \cup {Best(shared).item}
                  /\ shared' = RemoveAt(shared, BestIdx(shared))
                  /\ glen' = SatSub(glen, 1)
                  /\ since' = [since EXCEPT ![q] = 0]
                  /\ UNCHANGED <<local, llen, viol>>
             ELSE /\ viol' = IF ~AllEmpty THEN "idle_empty" ELSE viol
                  /\ since' = [since EXCEPT ![q] = 0]
                  /\ UNCHANGED <<shared, glen, local, llen, out>>
  /\ UNCHANGED nxt

Next ==
  \/ \E p \in Prios : GPush(p)
  \/ GPop
  \/ \E q \in Q, p \in Prios : LPush(q, p)
  \/ \E q \in Q, s \in Q : LPop(q, s)

Spec == Init /\ [][Next]_vars

------------------------------------------------------------------------------
(* Properties *)
TypeOK == glen \in Nat /\ nxt \in 1..(MaxItems + 1)

\* C03: every pushed item is in exactly one place
AllItems == Items(shared) \cup UNION {Items(local[q]) : q \in Q} \cup out
Conserve ==
  /\ AllItems = 1..(nxt - 1)
  /\ Len(shared) + Cardinality(out) = Cardinality(Items(shared) \cup out)   \* no duplicates
  /\ \A q \in Q : Len(local[q]) = Cardinality(Items(local[q]))
  /\ \A q \in Q : Items(local[q]) \cap (Items(shared) \cup out) = {}
  /\ \A q1, q2 \in Q : q1 # q2 => Items(local[q1]) \cap Items(local[q2]) = {}
\* C03: the reported shared length is exact when no operation is in progress
LenExact == glen = Len(shared)
\* C04 (no "spin"), C05 ("early_spill"), C06 ("starved", "idle_empty") and the
\* fast path of the shared pop ("gpop_empty")
NoViolation == viol = "none"
\* local workers never exceed their real capacity
WorkerBound == \A q \in Q, p \in Prios : CountPrio(local[q], p) <= WCap

\* history dump for spec -> implementation replay (used with -simulate or small MaxOps)
DumpHist == (Len(hist) = MaxOps) => PrintT(<<"REPLAY", ToJson(hist)>>)
=============================================================================
