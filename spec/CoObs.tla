-------------------------------- MODULE CoObs --------------------------------
(* Pure operators about coroutine states, shared by the design model         *)
(* (Coroutine.tla), the scheduler / pool models and the trace specifications.*)
(* A coroutine state is a record with field k (kind) and, depending on k:    *)
(*   Suspend: v (yielded value), ts (wake-up time class)                     *)
(*   Syscall: v, n (syscall name), sub (Executing|Suspend|Callback|Timeout), *)
(*            sts (wake-up time class of sub = Suspend)                      *)
(*   Complete: r     Error: m                                                *)
(* Time classes: 0 = "now" (plain suspend), 1 = in the past, 2 = far future, *)
(* 3 = u64::MAX.  Classes 0 and 1 are due, 2 and 3 are not.                  *)
EXTENDS Naturals, Sequences

Ready == [k |-> "Ready"]
Running == [k |-> "Running"]
Cancelled == [k |-> "Cancelled"]
Suspend(v, ts) == [k |-> "Suspend", v |-> v, ts |-> ts]
Syscall(v, n, sub, sts) == [k |-> "Syscall", v |-> v, n |-> n, sub |-> sub, sts |-> sts]
Complete(r) == [k |-> "Complete", r |-> r]
Error(m) == [k |-> "Error", m |-> m]

Due(ts) == ts \in {0, 1}
Terminal(s) == s.k \in {"Complete", "Error", "Cancelled"}

(* The documented graph (core/docs/en/coroutine.md, property C07):           *)
(*   Ready -> Running                                                        *)
(*   Running -> Suspend | Syscall | Complete | Error | Cancelled             *)
(*   Syscall -> Running | Syscall of the same call                           *)
(*   Suspend -> Ready | Running, only once due                               *)
EdgeOK(old, new) ==
  \/ old.k = "Ready" /\ new.k = "Running"
  \/ old.k = "Running" /\ new.k \in {"Suspend", "Syscall", "Complete", "Error", "Cancelled"}
  \/ old.k = "Syscall" /\ new.k = "Running"
  \/ old.k = "Syscall" /\ new.k = "Syscall" /\ old.n = new.n
  \/ old.k = "Suspend" /\ new.k \in {"Ready", "Running"} /\ Due(old.ts)

\* the specific listener callback that must accompany a change to `new`
CallbackOf(new) ==
  CASE new.k = "Ready" -> "on_ready"
    [] new.k = "Running" -> "on_running"
    [] new.k = "Suspend" -> "on_suspend"
    [] new.k = "Syscall" -> "on_syscall"
    [] new.k = "Cancelled" -> "on_cancel"
    [] new.k = "Complete" -> "on_complete"
    [] new.k = "Error" -> "on_error"
=============================================================================
