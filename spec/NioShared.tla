------------------------------ MODULE NioShared ------------------------------
(* Hooked calls that share a descriptor (property C18, the part neither        *)
(* NioSyscall.tla nor NioConn.tla reaches: those look at one call at a time).  *)
(*   core/src/syscall/unix/mod.rs   is_blocking / set_non_blocking /           *)
(*                                  set_blocking, used by every impl_nio_*     *)
(*                                  macro, connect, recvmsg, sendmsg           *)
(* A socket is routinely used by two callers at once - a coroutine parked in   *)
(* recv and another one that sends, or two threads.  Each hooked call has to   *)
(* know the mode the caller gave the descriptor: it forces O_NONBLOCK for      *)
(* the duration of the call and puts the caller's mode back afterwards, and a  *)
(* would-block goes straight back to the caller only if the caller chose       *)
(* non-blocking.  One action per step of a call that touches the flag: the     *)
(* look at the caller's mode (is_blocking) and the forcing (set_non_blocking)  *)
(* are two steps - callers on different threads interleave between them.       *)
(*                                                                             *)
(* Intended design (Deviations = {}): the runtime counts the calls that have   *)
(* the descriptor forced non-blocking; the caller's mode is "blocking" when    *)
(* the flag says so or when that count is positive, and the flag is put back   *)
(* when the last such call leaves.                                             *)
(* Named deviation "mode_from_flag" (the code before this round's fix): every  *)
(* call reads the caller's mode from the flag as it is at that moment - which  *)
(* another call of the runtime may have forced - and puts back what it read.   *)
EXTENDS Naturals, FiniteSets, TLC

CONSTANTS Callers, MaxEnters, Deviations
Dev(d) == d \in Deviations

VARIABLES userNb,   \* the mode the caller gave the descriptor (TRUE = non-blocking); it does not change
          flag,     \* O_NONBLOCK of the descriptor right now
          forced,   \* number of calls in progress that have forced the descriptor non-blocking
          pc,       \* [Callers -> "idle" | "looked" | "in" | "wait"]
          believes, \* [Callers -> what the call in progress took for the caller's mode: TRUE = blocking]
          enters,   \* [Callers -> calls made]
          last,     \* [Callers -> outcome of the last call: "none" | "ok" | "eagain_at_once" | "eagain_timeout"]
          askedBlk  \* the kernel was asked while the descriptor was blocking (the thread would have parked there)
vars == <<userNb, flag, forced, pc, believes, enters, last, askedBlk>>

Init == /\ userNb \in BOOLEAN /\ flag = userNb /\ forced = 0
        /\ pc = [c \in Callers |-> "idle"] /\ believes = [c \in Callers |-> FALSE]
        /\ enters = [c \in Callers |-> 0] /\ last = [c \in Callers |-> "none"] /\ askedBlk = FALSE

\* is_blocking: what mode did the caller choose?
Look(c) ==
  /\ pc[c] = "idle" /\ enters[c] < MaxEnters
  /\ believes' = [believes EXCEPT ![c] = IF Dev("mode_from_flag") THEN ~flag ELSE (~flag \/ forced > 0)]
  /\ pc' = [pc EXCEPT ![c] = "looked"] /\ enters' = [enters EXCEPT ![c] = @ + 1]
  /\ UNCHANGED <<userNb, flag, forced, last, askedBlk>>
\* set_non_blocking, if the caller's mode is blocking
Enter(c) ==
  /\ pc[c] = "looked"
  /\ flag' = IF believes[c] THEN TRUE ELSE flag
  /\ forced' = IF believes[c] /\ ~Dev("mode_from_flag") THEN forced + 1 ELSE forced
  /\ pc' = [pc EXCEPT ![c] = "in"]
  /\ UNCHANGED <<userNb, believes, enters, last, askedBlk>>

Leave(c, r) ==
  /\ pc' = [pc EXCEPT ![c] = "idle"] /\ last' = [last EXCEPT ![c] = r]
  /\ IF believes[c]
     THEN IF Dev("mode_from_flag")
          THEN flag' = FALSE /\ UNCHANGED forced
          ELSE forced' = forced - 1 /\ flag' = (forced - 1 > 0)
     ELSE UNCHANGED <<flag, forced>>

\* the kernel is asked
Ask(c, resp) ==
  /\ pc[c] = "in"
  /\ askedBlk' = (askedBlk \/ ~flag)
  /\ CASE resp = "ok" -> Leave(c, "ok")
       [] resp = "wouldblock" ->
            IF believes[c] THEN pc' = [pc EXCEPT ![c] = "wait"] /\ UNCHANGED <<flag, forced, last>>
            ELSE Leave(c, "eagain_at_once")
  /\ UNCHANGED <<userNb, believes, enters>>
\* the wait for readiness ends: ready (ask again) or the time limit
Wake(c) == /\ pc[c] = "wait" /\ pc' = [pc EXCEPT ![c] = "in"]
           /\ UNCHANGED <<userNb, flag, forced, believes, enters, last, askedBlk>>
Timeout(c) == /\ pc[c] = "wait" /\ Leave(c, "eagain_timeout")
              /\ UNCHANGED <<userNb, believes, enters, askedBlk>>

Next == \E c \in Callers : Look(c) \/ Enter(c) \/ Wake(c) \/ Timeout(c) \/ \E resp \in {"ok", "wouldblock"} : Ask(c, resp)
Spec == Init /\ [][Next]_vars

------------------------------------------------------------------------------
\* C18: only a caller that chose non-blocking gets the kernel's would-block back at once
CallersModeRespected == \A c \in Callers : last[c] = "eagain_at_once" => userNb
\* ... and one that chose non-blocking is never made to wait
NonblockNeverWaits == \A c \in Callers : pc[c] = "wait" => ~userNb
\* C18: with no call in progress the descriptor's mode is the caller's
ModeRestoredWhenQuiet == (\A c \in Callers : pc[c] = "idle") => (flag = userNb /\ forced = 0)
\* the kernel is never asked on a blocking descriptor
NeverAsksBlocking == ~askedBlk
=============================================================================
