------------------------------ MODULE NioShared ------------------------------
(* Hooked calls that share a descriptor (property C18, the part neither        *)
(* NioSyscall.tla nor NioConn.tla reaches: those look at one call at a time).  *)
(*   core/src/syscall/unix/mod.rs   is_blocking / set_non_blocking /           *)
(*                                  set_blocking, used by every impl_nio_*     *)
(*                                  macro, connect, recvmsg, sendmsg           *)
(* A socket is routinely used by two callers at once - a coroutine parked in   *)
(* recv and another one that sends, or two threads.  Each hooked call has to   *)
(* know the mode the caller gave the descriptor: it forces O_NONBLOCK for      *)
(* the duration of the call and puts the caller's mode back afterwards, and a  *)
(* would-block goes straight back to the caller only if the caller chose       *)
(* non-blocking.  One action per step of a call that touches the flag: the     *)
(* look at the caller's mode (is_blocking) and the forcing (set_non_blocking)  *)
(* are two steps - callers on different threads interleave between them.       *)
(*                                                                             *)
(* Intended design (Deviations = {}): the runtime counts the calls that have   *)
(* the descriptor forced non-blocking; the caller's mode is "blocking" when    *)
(* the flag says so or when that count is positive, and the flag is put back   *)
(* when the last such call leaves.                                             *)
(* Named deviation "mode_from_flag" (the code before this round's fix): every  *)
(* call reads the caller's mode from the flag as it is at that moment - which  *)
(* another call of the runtime may have forced - and puts back what it read.   *)
(* The callers may hold different descriptor numbers of the one socket (dup,   *)
(* TcpStream::try_clone: a handle for the reader, one for the writer); the     *)
(* flag belongs to the open file description they share.  Named deviation      *)
(* "keyed_by_number" (the first version of this round's fix): the calls in     *)
(* progress are counted per descriptor number.                                 *)
(* Named deviation "uncounted_joiner" (seeded/C15-2): only the call that       *)
(* finds the count at zero sets the flag - and only it is counted, so a call   *)
(* that joins and leaves first takes the forcing away from under the parked    *)
(* one, whose next kernel call parks the thread (the event loop stalls).       *)
(* The descriptor may also be closed (by a third party, through the hooked     *)
(* close) while calls are parked on it - the usual way to get rid of a reader. *)
(* The calls then come back with the kernel's EBADF; putting the mode back     *)
(* fails and must be survived.  Named deviation "restore_asserts" (the code    *)
(* before this round's fix): the failing fcntl trips an assertion inside an    *)
(* extern "C" function and the process aborts.                                 *)
EXTENDS Naturals, FiniteSets, TLC

CONSTANTS Callers, MaxEnters, Deviations
Dev(d) == d \in Deviations
\* the descriptor number a caller uses: caller "r" has its own, the others share the second one
Num(c) == IF c = "r" THEN 1 ELSE 2

VARIABLES userNb,   \* the mode the caller gave the descriptor (TRUE = non-blocking); it does not change
          flag,     \* O_NONBLOCK of the descriptor right now
          forced,   \* number of calls in progress that have forced the descriptor non-blocking
          forcedN,  \* the same, per descriptor number
          pc,       \* [Callers -> "idle" | "looked" | "in" | "wait"]
          believes, \* [Callers -> what the call in progress took for the caller's mode: TRUE = blocking]
          enters,   \* [Callers -> calls made]
          last,     \* [Callers -> outcome of the last call: "none" | "ok" | "eagain_at_once" | "eagain_timeout"]
          askedBlk, \* the kernel was asked while the descriptor was blocking (the thread would have parked there)
          open,     \* the descriptor is open
          died      \* the process aborted
vars == <<userNb, flag, forced, forcedN, pc, believes, enters, last, askedBlk, open, died>>

Init == /\ userNb \in BOOLEAN /\ flag = userNb /\ forced = 0 /\ forcedN = [n \in 1..2 |-> 0]
        /\ pc = [c \in Callers |-> "idle"] /\ believes = [c \in Callers |-> FALSE]
        /\ enters = [c \in Callers |-> 0] /\ last = [c \in Callers |-> "none"] /\ askedBlk = FALSE
        /\ open = TRUE /\ died = FALSE

\* is_blocking: what mode did the caller choose?
Look(c) ==
  /\ pc[c] = "idle" /\ enters[c] < MaxEnters /\ open /\ ~died
  /\ believes' = [believes EXCEPT ![c] = IF Dev("mode_from_flag") THEN ~flag
                                          ELSE IF Dev("keyed_by_number") THEN (~flag \/ forcedN[Num(c)] > 0)
                                          ELSE (~flag \/ forced > 0)]
  /\ pc' = [pc EXCEPT ![c] = "looked"] /\ enters' = [enters EXCEPT ![c] = @ + 1]
  /\ UNCHANGED <<userNb, flag, forced, forcedN, last, askedBlk, open, died>>
\* set_non_blocking, if the caller's mode is blocking
Enter(c) ==
  /\ pc[c] = "looked" /\ ~died
  /\ flag' = IF believes[c] THEN TRUE ELSE flag
  /\ LET counted == believes[c] /\ ~Dev("mode_from_flag") /\ (Dev("uncounted_joiner") => forced = 0) IN
     /\ forced' = IF counted THEN forced + 1 ELSE forced
     /\ forcedN' = IF counted THEN [forcedN EXCEPT ![Num(c)] = @ + 1] ELSE forcedN
  /\ pc' = [pc EXCEPT ![c] = "in"]
  \* (forcing the flag on a descriptor closed since the look fails just like putting it back)
  /\ died' = (died \/ (believes[c] /\ ~open /\ Dev("restore_asserts")))
  /\ UNCHANGED <<userNb, believes, enters, last, askedBlk, open>>

Leave(c, r) ==
  /\ pc' = [pc EXCEPT ![c] = "idle"] /\ last' = [last EXCEPT ![c] = r]
  /\ IF believes[c]
     THEN IF Dev("mode_from_flag")
          THEN flag' = FALSE /\ UNCHANGED <<forced, forcedN>>
          ELSE /\ forced' = (IF forced > 0 THEN forced - 1 ELSE 0)
               /\ forcedN' = [forcedN EXCEPT ![Num(c)] = IF @ > 0 THEN @ - 1 ELSE 0]
               \* the last call puts the flag back: the last one on the description - or (deviation) on its number
               /\ flag' = IF Dev("keyed_by_number") THEN (IF forcedN[Num(c)] - 1 > 0 THEN flag ELSE FALSE)
                          ELSE (forced - 1 > 0)
     ELSE UNCHANGED <<flag, forced, forcedN>>
  \* putting the mode back on a descriptor that has been closed meanwhile fails
  /\ died' = (died \/ (believes[c] /\ ~open /\ Dev("restore_asserts")))

\* the kernel is asked
Ask(c, resp) ==
  /\ pc[c] = "in" /\ ~died
  /\ (~open => resp = "ebadf") /\ (open => resp # "ebadf")
  /\ askedBlk' = (askedBlk \/ (open /\ ~flag))
  /\ CASE resp = "ok" -> Leave(c, "ok")
       [] resp = "ebadf" -> Leave(c, "ebadf")
       [] resp = "wouldblock" ->
            IF believes[c] THEN pc' = [pc EXCEPT ![c] = "wait"] /\ UNCHANGED <<flag, forced, forcedN, last, died>>
            ELSE Leave(c, "eagain_at_once")
  /\ UNCHANGED <<userNb, believes, enters, open>>
\* the wait for readiness ends: ready (ask again) or the time limit
Wake(c) == /\ pc[c] = "wait" /\ ~died /\ pc' = [pc EXCEPT ![c] = "in"]
           /\ UNCHANGED <<userNb, flag, forced, forcedN, believes, enters, last, askedBlk, open, died>>
Timeout(c) == /\ pc[c] = "wait" /\ ~died /\ Leave(c, "eagain_timeout")
              /\ UNCHANGED <<userNb, believes, enters, askedBlk, open>>
\* the hooked close: the runtime forgets what it knew about the number, the descriptor is gone
CloseFd == /\ open /\ ~died /\ open' = FALSE /\ forced' = 0 /\ forcedN' = [n \in 1..2 |-> 0] /\ flag' = FALSE
           /\ UNCHANGED <<userNb, pc, believes, enters, last, askedBlk, died>>

Next == \/ \E c \in Callers : Look(c) \/ Enter(c) \/ Wake(c) \/ Timeout(c) \/ \E resp \in {"ok", "wouldblock", "ebadf"} : Ask(c, resp)
        \/ CloseFd
Spec == Init /\ [][Next]_vars

------------------------------------------------------------------------------
\* C18: only a caller that chose non-blocking gets the kernel's would-block back at once
CallersModeRespected == \A c \in Callers : last[c] = "eagain_at_once" => userNb
\* ... and one that chose non-blocking is never made to wait
NonblockNeverWaits == \A c \in Callers : pc[c] = "wait" => ~userNb
\* C18: with no call in progress the descriptor's mode is the caller's
ModeRestoredWhenQuiet == (open /\ \A c \in Callers : pc[c] = "idle") => (flag = userNb /\ forced = 0)
\* the kernel is never asked on a blocking descriptor
NeverAsksBlocking == ~askedBlk
\* a descriptor closed under a parked call costs that call, not the process
NoAbort == ~died
\* while a call of a caller that left the descriptor blocking is in progress, the descriptor stays forced
ForcedWhileInProgress == (open /\ \E c \in Callers : pc[c] \in {"in", "wait"} /\ believes[c]) => flag
=============================================================================
