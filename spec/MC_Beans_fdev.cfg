SPECIFICATION Spec
CONSTANTS
  Threads = {1, 2, 3}
  Deviations = {"factory_check_then_store"}
VIEW view
INVARIANTS Unique Agree
CHECK_DEADLOCK FALSE
