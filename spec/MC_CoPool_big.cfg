SPECIFICATION Spec
CONSTANTS
  NT = 3
  NW = 5
  Max = 2
  Min = 0
  MaxSusp = 1
  MaxOps = 7
  Waiters = {1}
  KeepAlive = FALSE
  Deviations = {}
VIEW view
INVARIANTS NoViolation CounterExact CounterBounded DrainsToMin RejectAfterStop NoCollateral
PROPERTIES Monotone CancelledNeverRuns NoCollateralDrop
CHECK_DEADLOCK FALSE
