SPECIFICATION Spec
CONSTANTS
  Cap = 8
  Deviations = {}
INVARIANTS TypeOK Bounded
PROPERTIES Terminates
CHECK_DEADLOCK FALSE
