SPECIFICATION Spec
CONSTANTS
  NLoops = 2
  NSubs = 2
  PerSub = 2
  MaxStops = 2
  Deviations = {}
INVARIANTS TypeOK StopSettles StopMeansExited AcceptedKept
PROPERTIES Monotone
CHECK_DEADLOCK FALSE
