------------------------------ MODULE Trace_Conn ------------------------------
(* Observable layer of NioConn.tla (property C18 for connect, accept, accept4;  *)
(* harness/src/bin/conn.rs).  A call is one segment creset .. cend; between     *)
(* call_b and call_e lie the kernel calls the hook made (inner / inner_r, from  *)
(* the scripted kernel) and the waits for readiness it started (fd_wait, a hook *)
(* event of EventLoops::wait_read_event / wait_write_event).                    *)
(*  C18  nonblock_waited  the hook started to wait for readiness of a           *)
(*                        descriptor the caller had made non-blocking, or asked *)
(*                        the kernel again after its "not yet"                  *)
(*                        (NioConn!NonblockNeverWaits)                          *)
(*       nonblock_errno   on such a descriptor the kernel's "not yet" did not   *)
(*                        come back as -1 with the kernel's error number        *)
(*       mode_changed     the descriptor's blocking mode after the call is not  *)
(*                        the caller's (NioConn!ModeRestored)                   *)
(*  observations outside the listed properties (reported as notes):             *)
(*       asked_blocking   the kernel was asked on a blocking descriptor         *)
(*                        (NioConn!NeverAsksBlocking)                           *)
(*       conn_result      value / error number returned do not follow from the  *)
(*                        kernel's last answer as NioConn!Finish says           *)
EXTENDS Naturals, Integers, Sequences, TLC, Json, IOUtils

Rec == ndJsonDeserialize(IOEnv.TRACE)
N == Len(Rec)
EAGAIN == 11
ECONNABORTED == 103
ECONNREFUSED == 111
EINPROGRESS == 115
NEWFD == 777

VARIABLES l, scen, call, nonblock, limited, before, lastResp, sawPending, waits, inCall, nviol
vars == <<l, scen, call, nonblock, limited, before, lastResp, sawPending, waits, inCall, nviol>>
Init == /\ l = 1 /\ scen = 0 /\ call = "none" /\ nonblock = FALSE /\ limited = FALSE /\ before = FALSE
        /\ lastResp = "none" /\ sawPending = FALSE /\ waits = 0 /\ inCall = FALSE /\ nviol = 0
Viol(clause, detail) == PrintT(<<"VIOL", l, clause, scen, detail>>)
Count(b) == IF b THEN 1 ELSE 0
PendErr == IF call = "connect" THEN EINPROGRESS ELSE EAGAIN

Step ==
  /\ l <= N /\ l' = l + 1
  /\ LET r == Rec[l] ev == r.ev IN
     CASE ev = "creset" ->
            /\ scen' = r.scenario /\ call' = r.call /\ nonblock' = r.nonblock /\ limited' = r.limited /\ before' = r.nonblock
            /\ lastResp' = "none" /\ sawPending' = FALSE /\ waits' = 0 /\ inCall' = FALSE
            /\ UNCHANGED nviol
       [] ev = "call_b" -> /\ before' = r.fl_nonblock /\ inCall' = TRUE
                           /\ UNCHANGED <<scen, call, nonblock, limited, lastResp, sawPending, waits, nviol>>
       [] ev = "inner" ->
            LET b1 == ~r.fl_nonblock
                b2 == nonblock /\ sawPending
            IN /\ (b1 => Viol("asked_blocking", <<call>>))
               /\ (b2 => Viol("nonblock_waited", <<call, "kernel asked again">>))
               /\ nviol' = nviol + Count(b1) + Count(b2)
               /\ UNCHANGED <<scen, call, nonblock, limited, before, lastResp, sawPending, waits, inCall>>
       [] ev = "inner_r" ->
            /\ lastResp' = r.resp /\ sawPending' = (sawPending \/ r.resp = "pending")
            /\ UNCHANGED <<scen, call, nonblock, limited, before, waits, inCall, nviol>>
       [] ev = "fd_wait" ->
            LET b1 == inCall /\ r.own /\ nonblock
            IN /\ (b1 => Viol("nonblock_waited", <<call, "wait for readiness", r.kind>>))
               /\ nviol' = nviol + Count(b1)
               /\ waits' = waits + Count(inCall /\ r.own)
               /\ UNCHANGED <<scen, call, nonblock, limited, before, lastResp, sawPending, inCall>>
       [] ev = "peer_connect" -> UNCHANGED <<scen, call, nonblock, limited, before, lastResp, sawPending, waits, inCall, nviol>>
       [] ev = "call_e" ->
            LET okv == IF call = "connect" THEN 0 ELSE NEWFD
                \* the kernel's "not yet" on a descriptor the caller made non-blocking
                b1 == nonblock /\ lastResp = "pending" /\ ~(r.ret = -1 /\ r.errno = PendErr)
                b2 == r.fl_nonblock # before
                \* what NioConn!Finish says for the other endings (a connect that waited ends on what the real
                \* socket says: 0, ECONNREFUSED, or EINPROGRESS when its time limit passed)
                b3 == \/ lastResp \in {"ok", "extra"} /\ ~(r.ret = okv)
                      \/ lastResp = "err" /\ ~(r.ret = -1 /\ r.errno = (IF call = "connect" THEN ECONNREFUSED ELSE ECONNABORTED))
                      \/ lastResp = "pending" /\ ~nonblock /\ call # "connect" /\ ~(r.ret = -1 /\ r.errno = EAGAIN /\ limited)
                      \/ lastResp = "pending" /\ ~nonblock /\ call = "connect"
                           /\ ~(r.ret = 0 \/ (r.ret = -1 /\ r.errno = ECONNREFUSED) \/ (r.ret = -1 /\ r.errno = EINPROGRESS /\ limited))
            IN /\ (b1 => Viol("nonblock_errno", <<call, r.ret, r.errno>>))
               /\ (b2 => Viol("mode_changed", <<call, before, r.fl_nonblock>>))
               /\ (b3 => Viol("conn_result", <<call, lastResp, r.ret, r.errno>>))
               /\ nviol' = nviol + Count(b1) + Count(b2) + Count(b3)
               /\ inCall' = FALSE
               /\ UNCHANGED <<scen, call, nonblock, limited, before, lastResp, sawPending, waits>>
       [] ev = "died" -> /\ Viol(r.how, r.msg) /\ nviol' = nviol + 1
                         /\ UNCHANGED <<scen, call, nonblock, limited, before, lastResp, sawPending, waits, inCall>>
       [] ev = "cend" -> UNCHANGED <<scen, call, nonblock, limited, before, lastResp, sawPending, waits, inCall, nviol>>
Spec == Init /\ [][Step]_vars
Accepted == /\ PrintT(<<"ACCEPT", TLCGet("stats").diameter - 1, N>>)
            /\ TLCGet("stats").diameter - 1 = N
=============================================================================
