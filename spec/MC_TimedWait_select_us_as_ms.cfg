SPECIFICATION Spec
CONSTANTS
  MaxT = 40
  Slice = 10
  Deviations = {"select_us_as_ms"}
INVARIANTS NeverEarly NotLate InvalidRejected
PROPERTIES Terminates
CHECK_DEADLOCK FALSE
