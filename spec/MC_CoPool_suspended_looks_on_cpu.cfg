SPECIFICATION Spec
CONSTANTS
  NT = 2
  NW = 3
  Max = 2
  Min = 0
  MaxSusp = 1
  MaxOps = 7
  Waiters = {1, 2}
  KeepAlive = FALSE
  Deviations = {"suspended_looks_on_cpu"}
VIEW view
INVARIANTS NoViolation CounterExact CounterBounded DrainsToMin RejectAfterStop NoCollateral
PROPERTIES Monotone CancelledNeverRuns NoCollateralDrop
CHECK_DEADLOCK FALSE
