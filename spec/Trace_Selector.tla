---------------------------- MODULE Trace_Selector ----------------------------
(* Observable layer of properties C21 and C20 (harness/src/bin/sel.rs).         *)
(* C21  interest_mismatch: after an operation the interest the kernel holds for *)
(*      a descriptor on a loop (read from /proc/self/fdinfo of that loop's      *)
(*      epoll instance) differs from the union of the outstanding interests     *)
(* C20  woken_by_timeout: data arrived for the descriptor a task waits on and   *)
(*      the task was woken by its periodic timeout, not by the readiness event  *)
(*      cross_wake: a task waiting on a descriptor for which nothing has        *)
(*      arrived was woken by a readiness event                                  *)
(*      wrong_token: ground truth read from the kernel (epoll `data` in         *)
(*      /proc/self/fdinfo) just before a descriptor is made ready: exactly one  *)
(*      task waits on it, it was the last to start waiting there and has sat    *)
(*      through at least one whole wait slice since (so it has registered       *)
(*      again after anybody else), yet the registration is missing or carries   *)
(*      another coroutine's token  (Selector!TokenOfWaiter)                     *)
(*      not_armed: same ground truth and same conditions, and the registration  *)
(*      the kernel holds for the descriptor on the waiter's loop does not       *)
(*      include read readiness: no event can ever wake the waiter               *)
EXTENDS Naturals, Integers, Sequences, FiniteSets, TLC, Json, IOUtils

Rec == ndJsonDeserialize(IOEnv.TRACE)
N == Len(Rec)

VARIABLES l, scen, nloops, want, waitsOn, readyFd, sawCb, sawTo, nviol,
          slices,      \* [task -> timeout wake-ups since it last started to wait]
          lastParker,  \* [fd -> task that started to wait on it last]
          parkLoop     \* [task -> event loop on which it started to wait]
vars == <<l, scen, nloops, want, waitsOn, readyFd, sawCb, sawTo, nviol, slices, lastParker, parkLoop>>
Init == /\ l = 1 /\ scen = 0 /\ nloops = 0 /\ want = <<>> /\ waitsOn = [t \in {} |-> 0] /\ readyFd = {}
        /\ sawCb = [t \in {} |-> 0] /\ sawTo = [t \in {} |-> 0] /\ nviol = 0
        /\ slices = [t \in {} |-> 0] /\ lastParker = [f \in {} |-> 0] /\ parkLoop = [t \in {} |-> 0]
Viol(clause, detail) == PrintT(<<"VIOL", l, clause, scen, detail>>)
Count(b) == IF b THEN 1 ELSE 0
Put(f, k, v) == [x \in DOMAIN f \cup {k} |-> IF x = k THEN v ELSE f[x]]
Get(f, k) == IF k \in DOMAIN f THEN f[k] ELSE 0
KS(ks) == {ks[i] : i \in DOMAIN ks}

RECURSIVE BadRegs(_, _)
BadRegs(regs, i) ==
  IF i > Len(regs) THEN {}
  ELSE LET e == regs[i]
           os == (IF e.r THEN {"R"} ELSE {}) \cup (IF e.w THEN {"W"} ELSE {})
           w == want[e.loop][e.fd]
       IN (IF os # w THEN {<<e.loop, e.fd, os, w>>} ELSE {}) \cup BadRegs(regs, i + 1)

Step ==
  /\ l <= N /\ l' = l + 1
  /\ LET r == Rec[l] ev == r.ev IN
     CASE ev = "lreset" ->
            /\ scen' = r.scenario /\ nloops' = r.loops /\ want' = [x \in 1..r.loops |-> [f \in 1..3 |-> {}]]
            /\ waitsOn' = [t \in {} |-> 0] /\ readyFd' = {} /\ sawCb' = [t \in {} |-> 0] /\ sawTo' = [t \in {} |-> 0]
            /\ slices' = [t \in {} |-> 0] /\ lastParker' = [f \in {} |-> 0] /\ parkLoop' = [t \in {} |-> 0]
            /\ UNCHANGED nviol
       [] ev \in {"epolls", "agent", "op_done", "lend", "step_b", "step_e", "race"} -> UNCHANGED <<scen, nloops, want, waitsOn, readyFd, sawCb, sawTo, nviol, slices, lastParker, parkLoop>>
       [] ev = "op" ->
            /\ want' = CASE r.op = "wait" -> [want EXCEPT ![r.loop][r.fd] = @ \cup {r.kind}]
                         [] r.op = "del" -> [want EXCEPT ![r.loop][r.fd] = @ \ KS(r.kinds)]
                         [] OTHER -> [x \in DOMAIN want |-> [want[x] EXCEPT ![r.fd] = {}]]
            /\ UNCHANGED <<scen, nloops, waitsOn, readyFd, sawCb, sawTo, nviol, slices, lastParker, parkLoop>>
       [] ev = "snap" ->
            LET bad == BadRegs(r.regs, 1) IN
            /\ (bad # {} => Viol("interest_mismatch", bad))
            /\ nviol' = nviol + Count(bad # {})
            /\ UNCHANGED <<scen, nloops, want, waitsOn, readyFd, sawCb, sawTo, slices, lastParker, parkLoop>>
       [] ev = "park_b" ->
            /\ waitsOn' = Put(waitsOn, r.task, r.fd)
            /\ slices' = Put(slices, r.task, 0) /\ lastParker' = Put(lastParker, r.fd, r.task) /\ parkLoop' = Put(parkLoop, r.task, r.loop)
            /\ UNCHANGED <<scen, nloops, want, readyFd, sawCb, sawTo, nviol>>
       [] ev = "write" ->
            \* from now on a wake-up of a task waiting on this descriptor must be the readiness event
            LET P == {t \in DOMAIN waitsOn : waitsOn[t] = r.fd}
                bad == \E t \in P : /\ P = {t} /\ Get(lastParker, r.fd) = t /\ Get(slices, t) >= 1
                                     /\ ~\E i \in DOMAIN r.toks : r.toks[i].loop = Get(parkLoop, t) /\ r.toks[i].task = t
                bad2 == \E t \in P : /\ P = {t} /\ Get(lastParker, r.fd) = t /\ Get(slices, t) >= 1
                                      /\ \E i \in DOMAIN r.toks : r.toks[i].loop = Get(parkLoop, t) /\ ~r.toks[i].r
            IN /\ readyFd' = readyFd \cup {r.fd}
               /\ (bad => Viol("wrong_token", <<r.fd, P, r.toks>>))
               /\ (bad2 => Viol("not_armed", <<r.fd, P, r.toks>>))
               /\ nviol' = nviol + Count(bad) + Count(bad2)
               /\ UNCHANGED <<scen, nloops, want, waitsOn, sawCb, sawTo, slices, lastParker, parkLoop>>
       [] ev = "wake" ->
            LET t == r.task f == Get(waitsOn, t)
                bad == r.how = "callback" /\ f # 0 /\ f \notin readyFd
            IN /\ (bad => Viol("cross_wake", <<t, f, readyFd>>))
               /\ nviol' = nviol + Count(bad)
               \* sawCb / sawTo are per-task counters of wake-ups that happened while data was there
               /\ sawCb' = IF r.how = "callback" THEN Put(sawCb, t, Get(sawCb, t) + 1) ELSE sawCb
               /\ sawTo' = IF r.how = "timeout" /\ f \in readyFd THEN Put(sawTo, t, Get(sawTo, t) + 1) ELSE sawTo
               /\ slices' = IF r.how = "timeout" THEN Put(slices, t, Get(slices, t) + 1) ELSE slices
               /\ UNCHANGED <<scen, nloops, want, waitsOn, readyFd, lastParker, parkLoop>>
       [] ev = "recv_e" ->
            LET t == r.task IN
               /\ waitsOn' = Put(waitsOn, t, 0) /\ readyFd' = IF r.ret > 0 THEN readyFd \ {r.fd} ELSE readyFd
               /\ UNCHANGED <<scen, nloops, want, sawCb, sawTo, nviol, slices, lastParker, parkLoop>>
       [] ev = "tdone" ->
            \* a single timeout wake-up may win the race against the readiness event; a task that was
            \* woken with data pending three times or more and never once by the event was not
            LET t == r.task
                bad == Get(sawTo, t) >= 3 /\ Get(sawCb, t) = 0
            IN /\ (bad => Viol("woken_by_timeout", <<t, Get(sawTo, t)>>))
               /\ nviol' = nviol + Count(bad)
               /\ UNCHANGED <<scen, nloops, want, waitsOn, readyFd, sawCb, sawTo, slices, lastParker, parkLoop>>
       [] ev = "died" -> /\ Viol(r.how, r.msg) /\ nviol' = nviol + 1
                         /\ UNCHANGED <<scen, nloops, want, waitsOn, readyFd, sawCb, sawTo, slices, lastParker, parkLoop>>
Spec == Init /\ [][Step]_vars
Accepted == /\ PrintT(<<"ACCEPT", TLCGet("stats").diameter - 1, N>>)
            /\ TLCGet("stats").diameter - 1 = N
=============================================================================
