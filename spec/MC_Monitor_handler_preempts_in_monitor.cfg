SPECIFICATION Spec
CONSTANTS
  Threads = {1, 2}
  MaxT = 6
  Slice = 2
  Deviations = {"handler_preempts_in_monitor"}
INVARIANTS NotCorrupt SyscallNeverPreempted BusyPreempted NoSelfDeadlock
CHECK_DEADLOCK FALSE
