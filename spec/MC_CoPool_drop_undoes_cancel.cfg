SPECIFICATION Spec
CONSTANTS
  NT = 2
  NW = 3
  Max = 2
  Min = 0
  MaxSusp = 1
  MaxOps = 7
  Waiters = {1}
  KeepAlive = FALSE
  Deviations = {"drop_undoes_cancel"}
VIEW view
INVARIANTS NoViolation CounterExact CounterBounded DrainsToMin RejectAfterStop NoCollateral
PROPERTIES Monotone CancelledNeverRuns NoCollateralDrop
CHECK_DEADLOCK FALSE
