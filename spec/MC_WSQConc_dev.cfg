SPECIFICATION Spec
CONSTANTS
  Threads = {1, 2, 3}
  MaxOps = 3
  Deviations = {"len_lost_update"}
INVARIANTS Conserve QuiescentLenExact NeverStranded NoUnderflow
CHECK_DEADLOCK FALSE
