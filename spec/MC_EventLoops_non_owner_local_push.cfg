SPECIFICATION Spec
CONSTANTS
  NLoops = 2
  NSubs = 2
  PerSub = 2
  Deviations = {"non_owner_local_push"}
INVARIANTS AtMostOnce NoneLost JoinFinds
CHECK_DEADLOCK FALSE
