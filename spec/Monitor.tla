-------------------------------- MODULE Monitor --------------------------------
(* Signal-based preemption (property C22): core/src/monitor.rs with the          *)
(* `preemptive` feature.  Scheduling threads run coroutines; when a coroutine    *)
(* starts Running its thread submits a node (deadline = now + slice) to the      *)
(* monitor's notify set and removes it when the coroutine leaves Running; the    *)
(* monitor thread scans the set and signals (SIGURG) the threads of expired      *)
(* nodes; the handler suspends the current coroutine only if it is Running.      *)
(* The notify set is one shared structure: every operation on it is a begin /    *)
(* end pair, and `corrupt` records that a mutation overlapped another mutation   *)
(* or a scan.                                                                    *)
(* Named deviation "unsync_set": the set is an unsynchronised HashSet behind an  *)
(* UnsafeCell, so operations of different threads may overlap (the code before   *)
(* 1ae0855).                                                                     *)
(* A coroutine that returns from a system call goes back to Running on its own   *)
(* stack, and its listener runs the set operation (and the notify of the         *)
(* monitor's blocker, another lock) there.  A signal is delivered at any         *)
(* instruction: named deviation "handler_preempts_in_monitor" = the handler      *)
(* suspends such a coroutine while it holds the lock; the next coroutine of the  *)
(* thread then waits for a lock that only a coroutine waiting behind it can      *)
(* release (the code before the repair; found by TLC, reproduced with signals at *)
(* the monitor's rate).  Intended: the handler leaves a thread alone that is     *)
(* inside a monitor operation; the monitor tries again a millisecond later.      *)
EXTENDS Naturals, Sequences, FiniteSets, TLC

CONSTANTS Threads, MaxT, Slice, Deviations
Unsync == "unsync_set" \in Deviations

VARIABLES now,
          st,        \* [Threads -> "idle" | "running" | "syscall" | "preempted" | "done"]  state of the busy coroutine of the thread
          since,     \* [Threads -> time the coroutine became Running]
          node,      \* [Threads -> deadline of the thread's node in the set, 0 if none]
          inop,      \* [Threads \cup {0} -> "none" | "mut" | "scan"]  operation on the set in progress
          sig,       \* set of threads with a SIGURG pending
          onco,      \* threads whose operation in progress runs on the coroutine's own stack
          stuck,     \* a coroutine was suspended while it held the set's lock
          corrupt, sysPreempted
vars == <<now, st, since, node, inop, sig, onco, stuck, corrupt, sysPreempted>>
Actors == Threads \cup {0}

Init == /\ now = 0 /\ st = [t \in Threads |-> "idle"] /\ since = [t \in Threads |-> 0] /\ node = [t \in Threads |-> 0]
        /\ inop = [a \in Actors |-> "none"] /\ sig = {} /\ onco = {} /\ stuck = FALSE /\ corrupt = FALSE /\ sysPreempted = FALSE

OthersBusy(a) == \E b \in Actors \ {a} : inop[b] # "none"
OthersMutating(a) == \E b \in Actors \ {a} : inop[b] = "mut"
\* with a lock, an operation can only begin when nobody else is inside one
CanBegin(a) == Unsync \/ ~OthersBusy(a)

\* a coroutine starts (or resumes) running: submit a node
Start(t) == /\ st[t] \in {"idle", "preempted"} /\ inop[t] = "none" /\ CanBegin(t)
            /\ st' = [st EXCEPT ![t] = "running"] /\ since' = [since EXCEPT ![t] = now]
            /\ inop' = [inop EXCEPT ![t] = "mut"] /\ node' = [node EXCEPT ![t] = now + Slice]
            /\ corrupt' = (corrupt \/ OthersBusy(t))
            /\ UNCHANGED <<now, sig, onco, stuck, sysPreempted>>
EndOp(a) == /\ inop[a] # "none" /\ ~(stuck /\ a \in onco) /\ inop' = [inop EXCEPT ![a] = "none"] /\ onco' = onco \ {a}
            /\ UNCHANGED <<now, st, since, node, sig, stuck, corrupt, sysPreempted>>
\* the coroutine enters a system call / finishes: remove the node
Leave(t, to) == /\ st[t] = "running" /\ inop[t] = "none" /\ CanBegin(t)
                /\ st' = [st EXCEPT ![t] = to] /\ node' = [node EXCEPT ![t] = 0]
                /\ inop' = [inop EXCEPT ![t] = "mut"] /\ corrupt' = (corrupt \/ OthersBusy(t))
                /\ UNCHANGED <<now, since, sig, onco, stuck, sysPreempted>>
\* the system call is over: back to Running on the coroutine's own stack, the listener submits a new node
SysReturn(t) == /\ st[t] = "syscall" /\ inop[t] = "none" /\ CanBegin(t)
                /\ st' = [st EXCEPT ![t] = "running"] /\ since' = [since EXCEPT ![t] = now]
                /\ inop' = [inop EXCEPT ![t] = "mut"] /\ node' = [node EXCEPT ![t] = now + Slice]
                /\ onco' = onco \cup {t} /\ corrupt' = (corrupt \/ OthersBusy(t))
                /\ UNCHANGED <<now, sig, stuck, sysPreempted>>
\* monitor: scan the set and signal the expired nodes
Scan == /\ inop[0] = "none" /\ CanBegin(0)
        /\ inop' = [inop EXCEPT ![0] = "scan"]
        /\ corrupt' = (corrupt \/ OthersMutating(0))
        /\ sig' = sig \cup {t \in Threads : node[t] # 0 /\ now >= node[t]}
        /\ UNCHANGED <<now, st, since, node, onco, stuck, sysPreempted>>
\* signal delivery: the handler suspends only a Running coroutine
\* a signal that arrives while the thread itself is inside a set operation on a coroutine's stack
DeliverInside(t) ==
  /\ t \in sig /\ inop[t] = "mut" /\ t \in onco /\ st[t] = "running" /\ sig' = sig \ {t}
  /\ IF "handler_preempts_in_monitor" \in Deviations
     THEN /\ stuck' = TRUE /\ st' = [st EXCEPT ![t] = "preempted"]
     ELSE UNCHANGED <<stuck, st>>          \* left alone; the monitor signals again at its next scan
  /\ UNCHANGED <<now, since, node, inop, onco, corrupt, sysPreempted>>
Deliver(t) == /\ t \in sig /\ inop[t] = "none"
              /\ (st[t] = "running" => CanBegin(t))          \* the handler waits for the set's lock
              /\ sig' = sig \ {t}
              /\ IF st[t] = "running"
                 THEN /\ st' = [st EXCEPT ![t] = "preempted"] /\ node' = [node EXCEPT ![t] = 0]
                      /\ inop' = [inop EXCEPT ![t] = "mut"] /\ corrupt' = (corrupt \/ OthersBusy(t))
                      /\ UNCHANGED sysPreempted
                 ELSE UNCHANGED <<st, node, inop, corrupt, sysPreempted>>
              /\ UNCHANGED <<now, since, onco, stuck>>
Tick == /\ now < MaxT /\ now' = now + 1
        \* operations on the set and signal delivery are short compared with a tick, and the monitor
        \* scans at least once per tick: time only advances when nothing of that is outstanding
        /\ \A a \in Actors : inop[a] = "none"
        /\ sig = {}
        /\ \A t \in Threads : (node[t] # 0 /\ now >= node[t]) => st[t] # "running"
        /\ UNCHANGED <<st, since, node, inop, sig, onco, stuck, corrupt, sysPreempted>>

Next == \/ \E t \in Threads : Start(t) \/ Leave(t, "syscall") \/ Leave(t, "done") \/ SysReturn(t) \/ Deliver(t) \/ DeliverInside(t)
        \/ \E a \in Actors : EndOp(a)
        \/ Scan \/ Tick
Spec == Init /\ [][Next]_vars

\* C22: safe with many scheduling threads
NotCorrupt == ~corrupt
\* C22 "stays safe": nobody is ever suspended while it holds the lock of the notify set
NoSelfDeadlock == ~stuck
\* C22: a coroutine in a system-call state is never preempted
SyscallNeverPreempted == ~sysPreempted /\ \A t \in Threads : st[t] = "syscall" => node[t] = 0
\* C22: nobody keeps running for more than a slice plus two monitor periods without a signal on its way
BusyPreempted == \A t \in Threads : st[t] = "running" => now <= since[t] + Slice + 1
=============================================================================
