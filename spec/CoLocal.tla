------------------------------- MODULE CoLocal -------------------------------
(* Coroutine-local storage (core/src/coroutine/local.rs), property C25:      *)
(* a private map per coroutine; put returns the previous value, get / get_mut *)
(* see the latest value, remove returns and deletes, and - as documented -   *)
(* the values still stored are dropped exactly once when the coroutine is    *)
(* dropped.  Values are drop-counting tokens [id, tag].                      *)
(* Named deviation "no_drop": the storage keeps raw pointers and has no Drop *)
(* (code before the fix), so values still stored are leaked.                 *)
EXTENDS Naturals, Sequences, FiniteSets, TLC, Json

CONSTANTS NCo, Keys, MaxOps, Deviations

Co == 1..NCo
None == [id |-> 0, tag |-> 0]

VARIABLES store,    \* [Co -> [Keys -> value or None]]
          alive,    \* [Co -> BOOLEAN]
          dropped,  \* [id -> number of times dropped] as a function over ids seen so far
          held,     \* ids handed back to the caller (returned by put / remove): owned by the caller
          nxt, viol, hist
vars == <<store, alive, dropped, held, nxt, viol, hist>>
view == <<store, alive, dropped, held, viol, Len(hist)>>

Init == /\ store = [c \in Co |-> [k \in Keys |-> None]] /\ alive = [c \in Co |-> TRUE]
        /\ dropped = <<>> /\ held = {} /\ nxt = 1 /\ viol = "none" /\ hist = <<>>

Go == viol = "none" /\ Len(hist) < MaxOps
NewVal == [id |-> nxt, tag |-> 0]

Put(c, k) ==
  /\ Go /\ alive[c]
  /\ store' = [store EXCEPT ![c][k] = NewVal]
  /\ held' = IF store[c][k] = None THEN held ELSE held \cup {store[c][k].id}
  /\ dropped' = Append(dropped, 0) /\ nxt' = nxt + 1
  /\ hist' = Append(hist, [op |-> "put", c |-> c, k |-> k, id |-> nxt, ret |-> store[c][k]])
  /\ UNCHANGED <<alive, viol>>

Get(c, k) ==
  /\ Go /\ alive[c]
  /\ hist' = Append(hist, [op |-> "get", c |-> c, k |-> k, ret |-> store[c][k]])
  /\ UNCHANGED <<store, alive, dropped, held, nxt, viol>>

\* get_mut followed by a write through the reference
GetMut(c, k) ==
  /\ Go /\ alive[c]
  /\ store' = IF store[c][k] = None THEN store ELSE [store EXCEPT ![c][k].tag = @ + 1]
  /\ hist' = Append(hist, [op |-> "get_mut", c |-> c, k |-> k, ret |-> store[c][k]])
  /\ UNCHANGED <<alive, dropped, held, nxt, viol>>

Remove(c, k) ==
  /\ Go /\ alive[c]
  /\ store' = [store EXCEPT ![c][k] = None]
  /\ held' = IF store[c][k] = None THEN held ELSE held \cup {store[c][k].id}
  /\ hist' = Append(hist, [op |-> "remove", c |-> c, k |-> k, ret |-> store[c][k]])
  /\ UNCHANGED <<alive, dropped, nxt, viol>>

\* the coroutine is dropped - in the ordinary way, or while its thread unwinds from a panic (the frame that owns it
\* is being torn down). Named deviation "skip_when_panicking" (seeded/C25-2): the destructor returns early while the
\* thread is panicking, and what is still stored is never dropped.
DropCo(c, unwinding) ==
  /\ Go /\ alive[c]
  /\ alive' = [alive EXCEPT ![c] = FALSE]
  /\ LET ids == {store[c][k].id : k \in Keys} \ {0} IN
     /\ dropped' = IF "no_drop" \in Deviations \/ (unwinding /\ "skip_when_panicking" \in Deviations) THEN dropped
                   ELSE [i \in DOMAIN dropped |-> IF i \in ids THEN dropped[i] + 1 ELSE dropped[i]]
     /\ hist' = Append(hist, [op |-> "drop_co", c |-> c, expect |-> ids, unwinding |-> unwinding])
  /\ store' = [store EXCEPT ![c] = [k \in Keys |-> None]]
  /\ UNCHANGED <<held, nxt, viol>>

Next == \E c \in Co : (\E u \in BOOLEAN : DropCo(c, u)) \/ \E k \in Keys : Put(c, k) \/ Get(c, k) \/ GetMut(c, k) \/ Remove(c, k)
Spec == Init /\ [][Next]_vars

Stored == {store[c][k].id : c \in Co, k \in Keys} \ {0}
\* every value is in exactly one place: stored in a live coroutine, held by the caller, or dropped once
Accounted == \A i \in DOMAIN dropped :
               /\ (i \in Stored => dropped[i] = 0 /\ i \notin held)
               /\ (i \in held => dropped[i] = 0)
               /\ (i \notin Stored /\ i \notin held => dropped[i] = 1)
\* no value is stored twice
NoAlias == \A c1, c2 \in Co, k1, k2 \in Keys :
             (store[c1][k1] # None /\ store[c1][k1].id = store[c2][k2].id) => (c1 = c2 /\ k1 = k2)
\* privacy: an operation on one coroutine leaves every other coroutine's map unchanged
Private == [][Cardinality({c \in Co : store'[c] # store[c]}) <= 1]_vars
DumpHist == (Len(hist) = MaxOps) => PrintT(<<"REPLAY", ToJson(hist)>>)
=============================================================================
