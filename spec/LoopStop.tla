------------------------------- MODULE LoopStop -------------------------------
(* Design model of the EventLoops life cycle across threads (property C12 over *)
(* core/src/net/mod.rs EventLoops::{init, submit_task, stop},                   *)
(* core/src/net/event_loop.rs start / stop / do_stop and                        *)
(* core/src/co_pool/mod.rs submit_task).                                        *)
(*                                                                              *)
(* Threads: the initialising thread (start() of every loop, atomic here: the    *)
(* API hands out no handle before init returns), one thread per event loop,     *)
(* submitter threads, one stopper thread.  One action per critical section:     *)
(*   loop thread   LEnter (first instruction of the spawned thread), then per   *)
(*                 iteration of `while Running || submitting || !empty` one     *)
(*                 read per conjunct (LReadState, LReadInflight, LReadQueue),   *)
(*                 LWork (wait_event runs one queued task) or LExit (clears the *)
(*                 per-loop pending flag and leaves the shared stop counter)    *)
(*   submitter     SInc (count the submission), SCheck (read the pool state),   *)
(*                 SPush (shared queue), SDec (un-count; submit returns Ok)      *)
(*   stopper       StMark(l) = EventLoop::stop(ZERO) of loop l in order: state   *)
(*                 Running -> Stopping, and -> Stopped if the thread has gone;  *)
(*                 StWait = the condvar wait for counter = 0; StTimeout         *)
(* Named deviations (each is the code as it was before a `fix:` commit, or a    *)
(* plausible re-ordering; every one must make TLC report StopSettles):          *)
(*  "announce_in_thread"     a loop joins the shared stop counter from inside   *)
(*                           its own thread (LEnter) instead of in start()      *)
(*  "unguarded_submit"       submissions are not counted: state check, then push*)
(*  "queue_before_inflight"  the loop condition looks at the queue before it    *)
(*                           looks at the submissions in flight                 *)
EXTENDS Naturals, FiniteSets, TLC

CONSTANTS NLoops, NSubs, PerSub, MaxStops, Deviations
Loops == 1..NLoops
Subs == 1..NSubs
Tasks == 1..(NSubs * PerSub)
Dev(d) == d \in Deviations

VARIABLES lstate,    \* pool state of every loop
          thr,       \* loop thread: "spawned", "rd_state", "rd_inflight", "rd_queue", "work", "exited"
          pending,   \* per-loop stop flag (true from start() until the thread has left its loop)
          counter,   \* EventLoops.shared_stop
          inflight,  \* CoroutinePool.submitting
          queue,     \* shared task queue (any loop pops it)
          ran,       \* tasks that have run
          spc, snext, starget, \* submitter: program counter, next task index, loop chosen round-robin
          rr,
          subres,    \* result handed to the submitter: "none", "ok", "rejected"
          stpc, stk, stops, stopOk  \* stopper: pc, next loop to mark, calls made, a call returned Ok
vars == <<lstate, thr, pending, counter, inflight, queue, ran, spc, snext, starget, rr, subres, stpc, stk, stops, stopOk>>

Init == /\ lstate = [l \in Loops |-> "Running"] /\ thr = [l \in Loops |-> "spawned"]
        /\ pending = [l \in Loops |-> TRUE]
        /\ counter = IF Dev("announce_in_thread") THEN 0 ELSE NLoops
        /\ inflight = [l \in Loops |-> 0] /\ queue = {} /\ ran = {}
        /\ spc = [s \in Subs |-> "idle"] /\ snext = [s \in Subs |-> 1] /\ starget = [s \in Subs |-> 1] /\ rr = 0
        /\ subres = [t \in Tasks |-> "none"]
        /\ stpc = "idle" /\ stk = 1 /\ stops = 0 /\ stopOk = FALSE

TaskOf(s) == (s - 1) * PerSub + snext[s]
FirstCheck == IF Dev("queue_before_inflight") THEN "rd_queue" ELSE "rd_inflight"

------------------------------------------------------------------------------
\* loop thread
LEnter(l) == /\ thr[l] = "spawned" /\ thr' = [thr EXCEPT ![l] = "rd_state"]
             /\ counter' = IF Dev("announce_in_thread") THEN counter + 1 ELSE counter
             /\ UNCHANGED <<lstate, pending, inflight, queue, ran, spc, snext, starget, rr, subres, stpc, stk, stops, stopOk>>
LReadState(l) == /\ thr[l] = "rd_state"
                 /\ thr' = [thr EXCEPT ![l] = IF lstate[l] = "Running" THEN "work" ELSE FirstCheck]
                 /\ UNCHANGED <<lstate, pending, counter, inflight, queue, ran, spc, snext, starget, rr, subres, stpc, stk, stops, stopOk>>
LReadInflight(l) ==
  /\ thr[l] = "rd_inflight"
  /\ thr' = [thr EXCEPT ![l] = IF inflight[l] > 0 THEN "work"
                               ELSE IF Dev("queue_before_inflight") THEN "exit" ELSE "rd_queue"]
  /\ UNCHANGED <<lstate, pending, counter, inflight, queue, ran, spc, snext, starget, rr, subres, stpc, stk, stops, stopOk>>
LReadQueue(l) ==
  /\ thr[l] = "rd_queue"
  /\ thr' = [thr EXCEPT ![l] = IF queue # {} THEN "work"
                               ELSE IF Dev("queue_before_inflight") THEN "rd_inflight" ELSE "exit"]
  /\ UNCHANGED <<lstate, pending, counter, inflight, queue, ran, spc, snext, starget, rr, subres, stpc, stk, stops, stopOk>>
\* wait_event(SLICE): runs a queued task if there is one, then the condition is evaluated again
LWork(l) == /\ thr[l] = "work" /\ thr' = [thr EXCEPT ![l] = "rd_state"]
            /\ \/ /\ queue # {} /\ \E t \in queue : queue' = queue \ {t} /\ ran' = ran \cup {t}
               \/ /\ queue = {} /\ UNCHANGED <<queue, ran>>
            /\ UNCHANGED <<lstate, pending, counter, inflight, spc, snext, starget, rr, subres, stpc, stk, stops, stopOk>>
LExit(l) == /\ thr[l] = "exit" /\ thr' = [thr EXCEPT ![l] = "exited"]
            /\ pending' = [pending EXCEPT ![l] = FALSE] /\ counter' = counter - 1
            /\ UNCHANGED <<lstate, inflight, queue, ran, spc, snext, starget, rr, subres, stpc, stk, stops, stopOk>>

------------------------------------------------------------------------------
\* submitter: EventLoops::submit_task -> round_robin -> CoroutinePool::submit_task
SInc(s) == /\ spc[s] = "idle" /\ snext[s] <= PerSub
           /\ LET l == (rr % NLoops) + 1 IN
              /\ rr' = rr + 1 /\ starget' = [starget EXCEPT ![s] = l]
              /\ inflight' = IF Dev("unguarded_submit") THEN inflight ELSE [inflight EXCEPT ![l] = @ + 1]
           /\ spc' = [spc EXCEPT ![s] = "check"]
           /\ UNCHANGED <<lstate, thr, pending, counter, queue, ran, snext, subres, stpc, stk, stops, stopOk>>
SCheck(s) == /\ spc[s] = "check"
             /\ IF lstate[starget[s]] = "Running"
                THEN spc' = [spc EXCEPT ![s] = "push"] /\ UNCHANGED <<subres, snext, inflight>>
                ELSE /\ spc' = [spc EXCEPT ![s] = "idle"] /\ subres' = [subres EXCEPT ![TaskOf(s)] = "rejected"]
                     /\ snext' = [snext EXCEPT ![s] = @ + 1]
                     /\ inflight' = IF Dev("unguarded_submit") THEN inflight ELSE [inflight EXCEPT ![starget[s]] = @ - 1]
             /\ UNCHANGED <<lstate, thr, pending, counter, queue, ran, starget, rr, stpc, stk, stops, stopOk>>
SPush(s) == /\ spc[s] = "push" /\ queue' = queue \cup {TaskOf(s)} /\ spc' = [spc EXCEPT ![s] = "dec"]
            /\ UNCHANGED <<lstate, thr, pending, counter, inflight, ran, snext, starget, rr, subres, stpc, stk, stops, stopOk>>
SDec(s) == /\ spc[s] = "dec" /\ spc' = [spc EXCEPT ![s] = "idle"]
           /\ inflight' = IF Dev("unguarded_submit") THEN inflight ELSE [inflight EXCEPT ![starget[s]] = @ - 1]
           /\ subres' = [subres EXCEPT ![TaskOf(s)] = "ok"] /\ snext' = [snext EXCEPT ![s] = @ + 1]
           /\ UNCHANGED <<lstate, thr, pending, counter, queue, ran, starget, rr, stpc, stk, stops, stopOk>>

------------------------------------------------------------------------------
\* stopper: EventLoops::stop(wait_time)
StBegin == /\ stpc = "idle" /\ stops < MaxStops /\ stpc' = "mark" /\ stk' = 1 /\ stops' = stops + 1
           /\ UNCHANGED <<lstate, thr, pending, counter, inflight, queue, ran, spc, snext, starget, rr, subres, stopOk>>
\* EventLoop::stop(ZERO): Running -> Stopping; do_stop(ZERO) times out while the thread is alive
\* (result ignored) and marks the loop Stopped once the thread has left
StMark == /\ stpc = "mark"
          /\ LET l == stk
                 s1 == IF lstate[l] = "Running" THEN "Stopping" ELSE lstate[l]
                 s2 == IF s1 = "Stopping" /\ ~pending[l] THEN "Stopped" ELSE s1
             IN lstate' = [lstate EXCEPT ![l] = s2]
          /\ IF stk = NLoops THEN stpc' = "wait" /\ stk' = stk ELSE stk' = stk + 1 /\ stpc' = stpc
          /\ UNCHANGED <<thr, pending, counter, inflight, queue, ran, spc, snext, starget, rr, subres, stops, stopOk>>
StWait == /\ stpc = "wait" /\ counter = 0 /\ stpc' = "idle" /\ stopOk' = TRUE
          /\ UNCHANGED <<lstate, thr, pending, counter, inflight, queue, ran, spc, snext, starget, rr, subres, stk, stops>>
StTimeout == /\ stpc = "wait" /\ counter > 0 /\ stpc' = "idle"
             /\ UNCHANGED <<lstate, thr, pending, counter, inflight, queue, ran, spc, snext, starget, rr, subres, stk, stops, stopOk>>

Next == \/ \E l \in Loops : LEnter(l) \/ LReadState(l) \/ LReadInflight(l) \/ LReadQueue(l) \/ LWork(l) \/ LExit(l)
        \/ \E s \in Subs : SInc(s) \/ SCheck(s) \/ SPush(s) \/ SDec(s)
        \/ StBegin \/ StMark \/ StWait \/ StTimeout
Fair == /\ \A l \in Loops : WF_vars(LEnter(l) \/ LReadState(l) \/ LReadInflight(l) \/ LReadQueue(l) \/ LWork(l) \/ LExit(l))
        /\ \A s \in Subs : WF_vars(SInc(s) \/ SCheck(s) \/ SPush(s) \/ SDec(s))
        /\ WF_vars(StMark)
Spec == Init /\ [][Next]_vars
FairSpec == Spec /\ Fair

------------------------------------------------------------------------------
TypeOK == /\ counter \in 0..NLoops /\ \A l \in Loops : inflight[l] \in 0..NSubs
\* C12: once a stop has reported success, every submission that was (or is later) answered Ok
\* has run: nothing accepted earlier is left behind (clause stop_lost_task) and nothing is
\* accepted afterwards, when no loop is left to run it (clause accepted_after_stop)
StopSettles == stopOk => \A t \in Tasks : subres[t] = "ok" => t \in ran
\* a success means every loop thread has gone
StopMeansExited == stopOk => \A l \in Loops : thr[l] = "exited"
\* C12: Running -> Stopping -> Stopped only
Rank(x) == CASE x = "Running" -> 0 [] x = "Stopping" -> 1 [] x = "Stopped" -> 2
Monotone == [][\A l \in Loops : Rank(lstate'[l]) >= Rank(lstate[l])]_vars
\* C01 over a stop: an accepted task is never dropped, stop or no stop
\* (it is queued or has run from the moment submit answers Ok)
AcceptedKept == \A t \in Tasks : subres[t] = "ok" => t \in ran \cup queue
\* liveness under fairness: once every loop has been told to stop, every loop thread leaves
\* (so a stop with a long enough wait_time reports success)
LoopsLeave == (\A l \in Loops : lstate[l] # "Running") ~> (\A l \in Loops : thr[l] = "exited")
=============================================================================
