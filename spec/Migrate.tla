------------------------------- MODULE Migrate -------------------------------
(* Per-thread "current suspender" stacks when coroutines migrate between      *)
(* scheduling threads (work stealing between schedulers / event loops), and   *)
(* what the users of `Suspender::current()` - the SIGURG preemption handler   *)
(* of monitor.rs and every hooked call made inside a coroutine - find there.  *)
(*   core/src/common/macros.rs      impl_current_for!  (thread-local deque)   *)
(*   core/src/coroutine/suspender.rs  suspend_with = clean_current; switch;   *)
(*                                    init_current                            *)
(*   core/src/coroutine/korosensei.rs body wrapper = init_current; body;      *)
(*                                    clean_current                           *)
(*   core/src/scheduler.rs          a plain suspend goes to the tail of the   *)
(*                                    ready queue, where a sibling may steal  *)
(* One action per access to a thread-local deque and one per stack switch.    *)
(* A coroutine that is switched out sits in the (shared / stealable) queue    *)
(* and may be taken by any idle thread.                                       *)
(*                                                                            *)
(* Named deviation "cached_tls": the address of the thread-local deque is     *)
(* computed once per function and kept in a callee-saved register across the  *)
(* stack switch, so `init_current` after the switch (and the wrapper's final  *)
(* `clean_current`) work on the deque of the thread on which the function was *)
(* *entered*, not of the thread that runs the coroutine now (the optimised    *)
(* code before the repair: `mov %fs:0,%rax; lea -0x128(%rax),%rbp` at the top *)
(* of suspend_with, %rbp used again after the switch).                        *)
EXTENDS Naturals, Sequences, FiniteSets, TLC

CONSTANTS Threads, Co, MaxSusp, Deviations
Cached == "cached_tls" \in Deviations

VARIABLES loc,     \* [Co -> "queue" | "gone" | thread]  who runs the coroutine
          pc,      \* [Co -> "new" | "entered" | "body" | "popped" | "out" | "back" | "fin" | "done"]
          cur,     \* [Threads -> Seq(Co)]  the thread's SUSPENDER deque (front = head)
          ftls,    \* [Co -> thread]  deque the frame of the pending suspend_with call points at
          wtls,    \* [Co -> thread]  deque the body wrapper's frame points at
          nsusp,   \* [Co -> 0..MaxSusp]
          viol
vars == <<loc, pc, cur, ftls, wtls, nsusp, viol>>

AnyT == CHOOSE t \in Threads : TRUE
Init == /\ loc = [c \in Co |-> "queue"] /\ pc = [c \in Co |-> "new"]
        /\ cur = [t \in Threads |-> <<>>]
        /\ ftls = [c \in Co |-> AnyT] /\ wtls = [c \in Co |-> AnyT]
        /\ nsusp = [c \in Co |-> 0] /\ viol = "none"

Idle(t) == \A c \in Co : loc[c] # t
Push(t, c) == cur' = [cur EXCEPT ![t] = <<c>> \o @]
Pop(t) == cur' = [cur EXCEPT ![t] = IF @ = <<>> THEN @ ELSE Tail(@)]
Here(c) == loc[c]
\* the deque a frame works on after a switch
After(c, entered) == IF Cached THEN entered ELSE Here(c)

\* a scheduling thread pops the coroutine from a queue and switches to it (state Running already)
Take(t, c) == /\ Idle(t) /\ loc[c] = "queue" /\ pc[c] \in {"new", "out"}
              /\ loc' = [loc EXCEPT ![c] = t]
              /\ pc' = [pc EXCEPT ![c] = IF pc[c] = "new" THEN "entered" ELSE "back"]
              /\ wtls' = IF pc[c] = "new" THEN [wtls EXCEPT ![c] = t] ELSE wtls
              /\ UNCHANGED <<cur, ftls, nsusp, viol>>
\* body wrapper: Suspender::init_current(&suspender)
WrapInit(c) == /\ pc[c] = "entered" /\ Push(Here(c), c) /\ pc' = [pc EXCEPT ![c] = "body"]
               /\ UNCHANGED <<loc, ftls, wtls, nsusp, viol>>
\* suspend_with entered: the frame takes the deque's address, then clean_current
SuspPop(c) == /\ pc[c] = "body" /\ nsusp[c] < MaxSusp
              /\ ftls' = [ftls EXCEPT ![c] = Here(c)] /\ Pop(Here(c))
              /\ nsusp' = [nsusp EXCEPT ![c] = @ + 1] /\ pc' = [pc EXCEPT ![c] = "popped"]
              /\ UNCHANGED <<loc, wtls, viol>>
\* the stack switch back to the scheduler; the coroutine goes to the tail of the ready queue
SwitchOut(c) == /\ pc[c] = "popped" /\ pc' = [pc EXCEPT ![c] = "out"] /\ loc' = [loc EXCEPT ![c] = "queue"]
                /\ UNCHANGED <<cur, ftls, wtls, nsusp, viol>>
\* resumed (maybe by another thread): Self::init_current(self)
BackInit(c) == /\ pc[c] = "back" /\ Push(After(c, ftls[c]), c) /\ pc' = [pc EXCEPT ![c] = "body"]
               /\ UNCHANGED <<loc, ftls, wtls, nsusp, viol>>
\* the body returns: the wrapper's clean_current, then the switch back
Finish(c) == /\ pc[c] = "body" /\ Pop(After(c, wtls[c])) /\ pc' = [pc EXCEPT ![c] = "fin"]
             /\ UNCHANGED <<loc, ftls, wtls, nsusp, viol>>
Leave(c) == /\ pc[c] = "fin" /\ pc' = [pc EXCEPT ![c] = "done"] /\ loc' = [loc EXCEPT ![c] = "gone"]
            /\ UNCHANGED <<cur, ftls, wtls, nsusp, viol>>

\* A user of Suspender::current() on thread t: the SIGURG handler (at any instruction while the
\* thread's current coroutine is in the Running state - every pc between Take and SwitchOut / Leave -
\* and also while the thread is between coroutines) or a hooked call made by the body.
\* It suspends through whatever is at the head of the deque.
UseCurrent(t) ==
  /\ viol = "none" /\ cur[t] # <<>>
  /\ LET h == Head(cur[t]) IN
     viol' = IF loc[h] # t THEN "foreign_suspender"          \* suspender of a coroutine that is not on this thread:
                                                             \* switching through it jumps to a dead or foreign stack
             ELSE IF pc[h] # "body" THEN "suspender_outside_body"
             ELSE "none"
  /\ UNCHANGED <<loc, pc, cur, ftls, wtls, nsusp>>

Next == \/ \E t \in Threads, c \in Co : Take(t, c)
        \/ \E c \in Co : WrapInit(c) \/ SuspPop(c) \/ SwitchOut(c) \/ BackInit(c) \/ Finish(c) \/ Leave(c)
        \/ \E t \in Threads : UseCurrent(t)
Spec == Init /\ [][Next]_vars /\ WF_vars(Next)

NoViolation == viol = "none"
\* the head of a thread's deque is the coroutine whose body runs there; nothing else is ever on it
CurrentExact == \A t \in Threads :
                  LET here == {c \in Co : loc[c] = t /\ pc[c] = "body"} IN
                  cur[t] = IF here = {} THEN <<>> ELSE <<CHOOSE c \in here : TRUE>>
\* a body that asks for its suspender gets its own
BodyFindsOwn == \A c \in Co : pc[c] = "body" => (cur[Here(c)] # <<>> /\ Head(cur[Here(c)]) = c)
TypeOK == /\ \A c \in Co : loc[c] \in Threads \cup {"queue", "gone"}
          /\ \A t \in Threads : Cardinality({c \in Co : loc[c] = t}) <= 1
AllDone == <>(\A c \in Co : pc[c] = "done")
=============================================================================
