SPECIFICATION Spec
CONSTANTS
  Shapes <- ShapesSmall
  MaxN = 3
  MaxCalls = 4
  Deviations = {"zero_len_minus_one"}
INVARIANTS RequestOK ReturnOK NonblockNeverWaits
CHECK_DEADLOCK FALSE
