-------------------------- MODULE Trace_StackGrowth --------------------------
(* Observable layer of property C23 (harness/src/bin/grow.rs): nested        *)
(* maybe_grow_with calls in a coroutine or a plain thread.  `open` is the    *)
(* stack of calls in progress with whether each switched to a fresh segment; *)
(* the recorded segment count (coroutine: stack_infos; thread: the hook at   *)
(* the entry of maybe_grow_with) must always equal the number of open calls  *)
(* that grew - in particular after a return or an unwind.                    *)
EXTENDS Naturals, Integers, Sequences, FiniteSets, TLC, Json, IOUtils

Rec == ndJsonDeserialize(IOEnv.TRACE)
N == Len(Rec)
VARIABLES l, scen, where, open, pend, deep, nviol
vars == <<l, scen, where, open, pend, deep, nviol>>
Init == l = 1 /\ scen = 0 /\ where = "co" /\ open = <<>> /\ pend = "none" /\ deep = "no" /\ nviol = 0
Viol(clause, detail) == PrintT(<<"VIOL", l, clause, scen, detail>>)
Count(b) == IF b THEN 1 ELSE 0
Grown(fs) == Cardinality({i \in DOMAIN fs : fs[i].grew})
Below(fs, lvl) == SelectSeq(fs, LAMBDA f : f.level < lvl)

Step ==
  /\ l <= N /\ l' = l + 1
  /\ LET r == Rec[l] ev == r.ev IN
     CASE ev = "greset" -> /\ scen' = r.scenario /\ where' = r.where /\ open' = <<>> /\ pend' = "none" /\ deep' = "no"
                           /\ UNCHANGED nviol
       [] ev = "grow_b" ->
            LET bad == where = "co" /\ r.segs # Grown(open) IN
            /\ (bad => Viol("stale_segment", <<r.level, r.segs, Grown(open)>>))
            /\ nviol' = nviol + Count(bad)
            /\ open' = Append(open, [level |-> r.level, g |-> r.g, grew |-> FALSE])
            /\ pend' = "entry" /\ UNCHANGED <<scen, where, deep>>
       [] ev = "grow_thread" ->
            \* hook at the entry of a thread-path call: the count before this call's own decision
            LET expect == IF pend = "entry" THEN Grown(SubSeq(open, 1, Len(open) - 1)) ELSE Grown(open)
                bad == deep = "no" /\ where = "thread" /\ r.segs # expect
            IN /\ (bad => Viol("stale_segment", <<pend, r.segs, expect>>))
               /\ nviol' = nviol + Count(bad) /\ pend' = "none"
               /\ UNCHANGED <<scen, where, open, deep>>
       [] ev = "cb" ->
            LET n == Len(open)
                top == open[n]
                open2 == [open EXCEPT ![n].grew = r.on_new]
                b1 == top.g /\ ~r.on_new
                b2 == ~r.avail_ok
                b3 == where = "co" /\ r.segs # Grown(open2)
            IN /\ (b1 => Viol("no_room", <<r.level>>))
               /\ (b2 => Viol("red_zone", <<r.level>>))
               /\ (b3 => Viol("segs_in_callback", <<r.level, r.segs, Grown(open2)>>))
               /\ nviol' = nviol + Count(b1) + Count(b2) + Count(b3)
               /\ open' = open2 /\ pend' = "none" /\ UNCHANGED <<scen, where, deep>>
       [] ev = "grow_e" ->
            LET rest == Below(open, r.level)
                b1 == where = "co" /\ r.segs # Grown(rest)
                b2 == ~r.value_ok
            IN /\ (b1 => Viol("segs_not_restored", <<r.level, r.how, r.segs, Grown(rest)>>))
               /\ (b2 => Viol("value", <<r.level>>))
               /\ nviol' = nviol + Count(b1) + Count(b2)
               /\ open' = rest /\ pend' = "none" /\ UNCHANGED <<scen, where, deep>>
       [] ev = "probe" -> UNCHANGED <<scen, where, open, pend, deep, nviol>>
       [] ev = "mdeep_b" -> deep' = "running" /\ UNCHANGED <<scen, where, open, pend, nviol>>
       [] ev = "mdeep_e" -> deep' = "no" /\ UNCHANGED <<scen, where, open, pend, nviol>>
       [] ev = "deep_b" -> deep' = "running" /\ UNCHANGED <<scen, where, open, pend, nviol>>
       [] ev = "deep_e" -> deep' = "done" /\ UNCHANGED <<scen, where, open, pend, nviol>>
       [] ev = "co_error" -> /\ Viol("co_error", r.msg) /\ nviol' = nviol + 1
                             /\ UNCHANGED <<scen, where, open, pend, deep>>
       [] ev = "co_after" ->
            LET bad == r.segs # 0 IN
            /\ (bad => Viol("segs_not_restored", <<0, "end", r.segs, 0>>))
            /\ nviol' = nviol + Count(bad) /\ UNCHANGED <<scen, where, open, pend, deep>>
       [] ev = "died" -> /\ Viol(IF deep = "running" THEN "deep_recursion_failed" ELSE r.how, r.msg)
                         /\ nviol' = nviol + 1 /\ UNCHANGED <<scen, where, open, pend, deep>>
       [] ev = "gend" ->
            LET bad == deep = "running"
                b2 == deep = "done" /\ open # <<>>       \* every call that was entered has ended
            IN
            /\ (bad => Viol("deep_recursion_failed", "no result"))
            /\ (b2 => Viol("unbalanced", open))
            /\ nviol' = nviol + Count(bad) + Count(b2) /\ deep' = "no" /\ UNCHANGED <<scen, where, open, pend>>
Spec == Init /\ [][Step]_vars
Accepted == /\ PrintT(<<"ACCEPT", TLCGet("stats").diameter - 1, N>>)
            /\ TLCGet("stats").diameter - 1 = N
=============================================================================
