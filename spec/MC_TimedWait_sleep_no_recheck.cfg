SPECIFICATION Spec
CONSTANTS
  MaxT = 40
  Slice = 10
  Deviations = {"sleep_no_recheck"}
INVARIANTS NeverEarly NotLate InvalidRejected
PROPERTIES Terminates
CHECK_DEADLOCK FALSE
