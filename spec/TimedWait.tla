------------------------------ MODULE TimedWait ------------------------------
(* Hooked timed waits (property C14): sleep / usleep / nanosleep (one wait of   *)
(* the requested length, cut into slices by the event loop), poll and select    *)
(* (probe the kernel with a zero timeout, wait min(left, x) ms, x doubling up   *)
(* to 16), pthread_cond_timedwait (slices of 10 ms until the absolute time).    *)
(* Virtual clock in milliseconds; every wait of d ms advances the clock by d or *)
(* d + 1 (scheduling jitter).  T is the requested timeout in ms (sub-ms         *)
(* requests are modelled by UnitsPerMs > 1 for select, whose argument is in us).*)
(* Named deviations (code before the fix):                                      *)
(*  "select_us_as_ms"      select computes its timeout in microseconds and      *)
(*                         consumes it as milliseconds                          *)
(*  "select_negative_abort" a negative timeval aborts instead of EINVAL         *)
(*  "nominal_slices"       poll / select subtract the nominal length of each    *)
(*                         slice from the time left instead of the time that    *)
(*                         really passed: the jitter of every slice adds up, so *)
(*                         the slack grows with the timeout instead of staying  *)
(*                         bounded (code before eb6864f: 1 s took 1.29 s)       *)
(*  "sleep_no_recheck"     a coroutine's sleep parks once until its deadline    *)
(*                         and returns whenever it is resumed, without reading  *)
(*                         the clock again: an early resumption - a stale entry *)
(*                         of the scheduler's syscall timer left by an earlier  *)
(*                         socket wait of the same coroutine, or a readiness    *)
(*                         event of a socket it no longer waits on - ends the   *)
(*                         sleep early (a seeded change, seeded/C14)            *)
(*  "eintr_ends_wait"      a plain-thread caller's wait is a poll of the event  *)
(*                         loop's selector; a signal with a handler interrupts  *)
(*                         it (epoll_wait is never restarted, mio does not      *)
(*                         retry): the error leaves the wait loop, sleep /      *)
(*                         usleep / nanosleep report success and                *)
(*                         pthread_cond_timedwait ETIMEDOUT long before the     *)
(*                         time (a seeded change, seeded/C14-2)                 *)
EXTENDS Naturals, Integers, Sequences, TLC

CONSTANTS MaxT, Slice, Deviations
MaxSpurious == 2
Calls == {"sleep", "poll", "select", "cond"}

VARIABLES call, T, valid, now, left, x, pc, ret, probes, dead, sp
vars == <<call, T, valid, now, left, x, pc, ret, probes, dead, sp>>

Init == /\ call \in Calls /\ T \in 0..MaxT /\ valid \in BOOLEAN
        /\ now = 0 /\ left = 0 /\ x = 1 /\ pc = "start" /\ ret = "none" /\ probes = 0 /\ dead = FALSE /\ sp = 0

UsAsMs == "select_us_as_ms" \in Deviations
Min(a, b) == IF a <= b THEN a ELSE b

Start ==
  /\ pc = "start"
  /\ IF ~valid
     THEN IF call = "select" /\ "select_negative_abort" \in Deviations
          THEN dead' = TRUE /\ pc' = "done" /\ ret' = "aborted" /\ UNCHANGED left
          ELSE pc' = "done" /\ ret' = "EINVAL" /\ UNCHANGED <<dead, left>>
     ELSE /\ left' = IF call = "select" /\ UsAsMs THEN T * 4 ELSE T      \* 4 "microsecond units" per ms
          /\ pc' = IF call \in {"poll", "select"} THEN "probe" ELSE "wait"
          /\ UNCHANGED <<ret, dead>>
  /\ UNCHANGED <<call, T, valid, now, x, probes, sp>>

\* poll / select ask the kernel with a zero timeout: nothing is ready
Probe == /\ pc = "probe" /\ probes' = probes + 1
         /\ IF left = 0 THEN pc' = "done" /\ ret' = "timeout" ELSE pc' = "wait" /\ UNCHANGED ret
         /\ UNCHANGED <<call, T, valid, now, left, x, dead, sp>>

\* one wait: the whole rest for the sleeps (internally sliced), min(left, x) for poll / select,
\* min(left, Slice) for cond_timedwait; jitter j
Wait(j) ==
  /\ pc = "wait"
  /\ LET d == CASE call = "sleep" -> left
                [] call \in {"poll", "select"} -> Min(left, x)
                [] call = "cond" -> Min(left, Slice)
     IN /\ now' = now + d + j
        \* the time left is measured against a deadline (sleeps: timer heap entry, cond: absolute
        \* time, poll / select: deadline computed once), so jitter is not carried over
        /\ left' = IF call \in {"poll", "select"} /\ "nominal_slices" \in Deviations THEN left - d
                   ELSE IF left >= d + j THEN left - d - j ELSE 0
        /\ x' = IF call \in {"poll", "select"} /\ x < 16 THEN x * 2 ELSE x
        /\ IF call \in {"poll", "select"} THEN pc' = "probe" /\ UNCHANGED ret
           ELSE IF left <= d + j THEN pc' = "done" /\ ret' = "timeout" ELSE pc' = "wait" /\ UNCHANGED ret
  /\ UNCHANGED <<call, T, valid, probes, dead, sp>>

\* the parked coroutine is resumed e ms into a wait that should last longer (stale syscall-timer entry of
\* an earlier socket wait, readiness event of a descriptor it no longer waits on): the wait loop reads the
\* clock and parks again for what is left. The same step is a plain-thread caller whose poll is interrupted
\* by a signal e ms into the wait: the interruption counts as "nothing ready" and the wait goes on
EarlyWake(e) ==
  /\ pc = "wait" /\ call \in {"sleep", "cond"} /\ sp < MaxSpurious /\ e < left
  /\ sp' = sp + 1 /\ now' = now + e /\ left' = left - e
  /\ IF (call = "sleep" /\ "sleep_no_recheck" \in Deviations) \/ "eintr_ends_wait" \in Deviations
     THEN pc' = "done" /\ ret' = "timeout"
     ELSE UNCHANGED <<pc, ret>>
  /\ UNCHANGED <<call, T, valid, x, probes, dead>>

Next == Start \/ Probe \/ (\E j \in 0..1 : Wait(j)) \/ (\E e \in 0..MaxT : EarlyWake(e))
Spec == Init /\ [][Next]_vars /\ WF_vars(Next)

\* C14
NeverEarly == (pc = "done" /\ valid) => now >= T
\* bounded slack: only the jitter of the last wait can carry the call past its deadline, whatever T is
\* (with "select_us_as_ms" the call works on 4 T and is late by a factor; with "nominal_slices" the
\* jitter of every slice is added)
NotLate == (pc = "done" /\ valid /\ ret = "timeout") => now <= T + 1
InvalidRejected == (pc = "done" /\ ~valid) => ret = "EINVAL" /\ now = 0 /\ ~dead
Terminates == <>(pc = "done")
=============================================================================
