SPECIFICATION Spec
CONSTANTS
  MaxCalls = 3
  Deviations = {"mode_not_restored"}
INVARIANTS NonblockNeverWaits ModeRestored NeverAsksBlocking ReturnOK
CHECK_DEADLOCK FALSE
