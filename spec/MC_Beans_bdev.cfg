SPECIFICATION Spec
CONSTANTS
  Threads = {1, 2, 3}
  Deviations = {"bean_check_then_insert"}
VIEW view
INVARIANTS Unique Agree
CHECK_DEADLOCK FALSE
