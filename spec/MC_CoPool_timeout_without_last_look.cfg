SPECIFICATION Spec
CONSTANTS
  NT = 2
  NW = 3
  Max = 2
  Min = 0
  MaxSusp = 1
  MaxOps = 7
  Waiters = {1, 2}
  KeepAlive = FALSE
  Deviations = {"timeout_without_last_look"}
VIEW view
INVARIANTS NoViolation CounterExact CounterBounded DrainsToMin RejectAfterStop NoCollateral
PROPERTIES Monotone CancelledNeverRuns NoCollateralDrop
CHECK_DEADLOCK FALSE
