---------------------------- MODULE Trace_CoLocal ----------------------------
(* Observable layer of property C25: validates traces of the real            *)
(* CoroutineLocal (through real Coroutine objects) recorded by               *)
(* harness/src/bin/colocal.rs.  Values are drop-counting tokens; key k2      *)
(* holds values without drop glue, whose release is observed through the     *)
(* allocator (`mem`: live blocks of their size): after a coroutine is        *)
(* dropped exactly the values still stored in the living ones occupy memory  *)
(* (clause plain_leak).                                                      *)
EXTENDS Naturals, Sequences, FiniteSets, TLC, Json, IOUtils

Rec == ndJsonDeserialize(IOEnv.TRACE)
N == Len(Rec)
None == [id |-> 0, tag |-> 0]
Keys == {"k1", "k2", "k3"}

VARIABLES l, scen, store, alive, drops, held, seen, nviol
vars == <<l, scen, store, alive, drops, held, seen, nviol>>

Init == l = 1 /\ scen = 0 /\ store = <<>> /\ alive = <<>> /\ drops = [i \in {} |-> 0] /\ held = {} /\ seen = {} /\ nviol = 0
Viol(clause, detail) == PrintT(<<"VIOL", l, clause, scen, detail>>)
Count(b) == IF b THEN 1 ELSE 0
V(j) == [id |-> j.id, tag |-> j.tag]
Stored == {store[c][k].id : c \in DOMAIN store, k \in Keys} \ {0}
DropsOf(i) == IF i \in DOMAIN drops THEN drops[i] ELSE 0

Step ==
  /\ l <= N /\ l' = l + 1
  /\ LET r == Rec[l] ev == r.ev IN
     CASE ev = "lreset" ->
            /\ scen' = r.scenario /\ store' = [c \in 1..r.nco |-> [k \in Keys |-> None]]
            /\ alive' = [c \in 1..r.nco |-> TRUE] /\ drops' = [i \in {} |-> 0] /\ held' = {} /\ seen' = {}
            /\ UNCHANGED nviol
       [] ev = "put" ->
            LET old == store[r.co][r.key] bad == V(r.ret) # old IN
            /\ (bad => Viol("put_ret", <<r.co, r.key, V(r.ret), old>>))
            /\ nviol' = nviol + Count(bad)
            /\ store' = [store EXCEPT ![r.co][r.key] = [id |-> r.id, tag |-> 0]]
            /\ held' = IF r.ret.id = 0 \/ r.key = "k2" THEN held ELSE held \cup {r.ret.id}
            /\ seen' = IF r.key = "k2" THEN seen ELSE seen \cup {r.id}
            /\ UNCHANGED <<scen, alive, drops>>
       [] ev = "get" ->
            LET bad == V(r.ret) # store[r.co][r.key] IN
            /\ (bad => Viol("get_ret", <<r.co, r.key, V(r.ret), store[r.co][r.key]>>))
            /\ nviol' = nviol + Count(bad)
            /\ UNCHANGED <<scen, store, alive, drops, held, seen>>
       [] ev = "get_mut" ->
            LET old == store[r.co][r.key] bad == V(r.ret) # old IN
            /\ (bad => Viol("get_ret", <<r.co, r.key, V(r.ret), old>>))
            /\ nviol' = nviol + Count(bad)
            /\ store' = IF old = None THEN store ELSE [store EXCEPT ![r.co][r.key].tag = @ + 1]
            /\ UNCHANGED <<scen, alive, drops, held, seen>>
       [] ev = "remove" ->
            LET old == store[r.co][r.key] bad == V(r.ret) # old IN
            /\ (bad => Viol("remove_ret", <<r.co, r.key, V(r.ret), old>>))
            /\ nviol' = nviol + Count(bad)
            /\ store' = [store EXCEPT ![r.co][r.key] = None]
            /\ held' = IF r.ret.id = 0 \/ r.key = "k2" THEN held ELSE held \cup {r.ret.id}
            /\ UNCHANGED <<scen, alive, drops, seen>>
       [] ev = "drop_co" ->
            \* the values still stored move to "must be dropped": they are neither stored nor held any more
            /\ alive' = [alive EXCEPT ![r.co] = FALSE]
            /\ store' = [store EXCEPT ![r.co] = [k \in Keys |-> None]]
            /\ UNCHANGED <<scen, drops, held, seen, nviol>>
       [] ev = "mem" ->
            LET expect == Cardinality({c \in DOMAIN store : alive[c] /\ store[c]["k2"] # None})
                bad == r.live # expect
            IN /\ (bad => Viol("plain_leak", <<r.live, expect>>))
               /\ nviol' = nviol + Count(bad)
               /\ UNCHANGED <<scen, store, alive, drops, held, seen>>
       [] ev = "dropped" ->
            LET i == r.id
                b1 == i \in Stored \/ i \in held
                b2 == DropsOf(i) >= 1
            IN /\ (b1 => Viol("premature_drop", i))
               /\ (b2 => Viol("double_drop", i))
               /\ nviol' = nviol + Count(b1) + Count(b2)
               /\ drops' = [j \in DOMAIN drops \cup {i} |-> IF j = i THEN DropsOf(i) + 1 ELSE drops[j]]
               /\ UNCHANGED <<scen, store, alive, held, seen>>
       [] ev = "died" ->
            /\ Viol(r.how, r.msg) /\ nviol' = nviol + 1
            /\ UNCHANGED <<scen, store, alive, drops, held, seen>>
       [] ev = "lend" ->
            LET leaked == {i \in seen : i \notin Stored /\ i \notin held /\ DropsOf(i) = 0} IN
            /\ (leaked # {} => Viol("leak", leaked))
            /\ nviol' = nviol + Count(leaked # {})
            /\ UNCHANGED <<scen, store, alive, drops, held, seen>>

Spec == Init /\ [][Step]_vars
Accepted == /\ PrintT(<<"ACCEPT", TLCGet("stats").diameter - 1, N>>)
            /\ TLCGet("stats").diameter - 1 = N
=============================================================================
