SPECIFICATION Spec
CONSTANTS
  NCo = 2
  MaxSteps = 3
  MaxT = 4
  MaxOps = 14
  Deviations = {"cancel_forgotten_on_yield"}
VIEW view
INVARIANTS NoViolation ResultOnce ReadyExact
CHECK_DEADLOCK FALSE
