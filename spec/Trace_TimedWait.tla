---------------------------- MODULE Trace_TimedWait ----------------------------
(* Observable layer of property C14 (harness/src/bin/tw.rs): envelope of every  *)
(* hooked timed wait measured on the monotonic clock.                           *)
(*   early    returned before the requested timeout (tolerance 20 us + 0.1 %)   *)
(*   late     returned later than timeout + 60 ms + 20 %                        *)
(*   einval   an invalid time argument was not rejected at once with EINVAL     *)
(*   probe_blocking  poll / select asked the kernel with a non-zero timeout     *)
(*   abort / hang    the process died or never returned (unless the request was *)
(*                   a maximal one, which is only required to keep waiting)     *)
EXTENDS Naturals, Integers, Sequences, TLC, Json, IOUtils
Rec == ndJsonDeserialize(IOEnv.TRACE)
N == Len(Rec)
EINVAL == 22
VARIABLES l, scen, cur, nviol
vars == <<l, scen, cur, nviol>>
Init == l = 1 /\ scen = 0 /\ cur = [call |-> "", t_us |-> 0, invalid |-> "", long |-> FALSE] /\ nviol = 0
Viol(clause, detail) == PrintT(<<"VIOL", l, clause, scen, detail>>)
Count(b) == IF b THEN 1 ELSE 0
Step ==
  /\ l <= N /\ l' = l + 1
  /\ LET r == Rec[l] ev == r.ev IN
     CASE ev = "treset" -> /\ scen' = r.scenario /\ cur' = [call |-> r.call, t_us |-> r.t_us, invalid |-> r.invalid, long |-> r.long]
                           /\ UNCHANGED nviol
       [] ev \in {"tw_b", "tend", "pre", "signals"} -> UNCHANGED <<scen, cur, nviol>>
       [] ev = "probe" -> /\ (~r.zero => Viol("probe_blocking", cur.call)) /\ nviol' = nviol + Count(~r.zero)
                          /\ UNCHANGED <<scen, cur>>
       [] ev = "tw_e" ->
            LET T == cur.t_us
                tol == 20 + T \div 1000
                b1 == cur.invalid = "" /\ r.us + tol < T
                \* bounded slack: 60 ms of scheduling noise plus a tenth of the request (the drift of sliced
                \* waits that count nominal slices is about three tenths)
                b2 == cur.invalid = "" /\ r.us > T + 60000 + T \div 10
                b3 == cur.invalid # "" /\ ~((r.code = EINVAL) /\ r.us < 50000
                                             /\ (IF cur.call = "cond" THEN r.ret = EINVAL ELSE r.ret = -1))
            IN /\ (b1 => Viol("early", <<cur.call, T, r.us>>))
               /\ (b2 => Viol("late", <<cur.call, T, r.us>>))
               /\ (b3 => Viol("einval", <<cur.call, cur.invalid, r.ret, r.code, r.us>>))
               /\ nviol' = nviol + Count(b1) + Count(b2) + Count(b3) /\ UNCHANGED <<scen, cur>>
       [] ev = "died" ->
            LET ok == cur.long /\ r.how = "hang" IN
            /\ (~ok => Viol(IF cur.invalid # "" THEN "einval" ELSE r.how, <<cur.call, cur.invalid, r.how, r.msg>>))
            /\ nviol' = nviol + Count(~ok) /\ UNCHANGED <<scen, cur>>
Spec == Init /\ [][Step]_vars
Accepted == /\ PrintT(<<"ACCEPT", TLCGet("stats").diameter - 1, N>>)
            /\ TLCGet("stats").diameter - 1 = N
=============================================================================
