SPECIFICATION Spec
CONSTANTS
  Callers = {"r", "w", "x"}
  MaxEnters = 2
  Deviations = {"uncounted_joiner"}
INVARIANTS CallersModeRespected NonblockNeverWaits ModeRestoredWhenQuiet NeverAsksBlocking NoAbort ForcedWhileInProgress
CHECK_DEADLOCK FALSE
