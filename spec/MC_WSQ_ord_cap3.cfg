SPECIFICATION Spec
CONSTANTS
  NQ = 2
  Cap = 3
  Prios = {0, 1}
  Period = 3
  MaxItems = 6
  MaxOps = 9
  Ordered = TRUE
  Deviations = {}
VIEW view
INVARIANTS TypeOK Conserve LenExact NoViolation WorkerBound
CHECK_DEADLOCK FALSE
