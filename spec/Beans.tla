-------------------------------- MODULE Beans --------------------------------
(* Named process-wide singletons (core/src/common/beans.rs), property C26.   *)
(* N threads ask for the same named object for the first time at the same    *)
(* time.  Two levels, both step-level:                                       *)
(*   the factory itself   get_instance:   F1 load, (F2 alloc, F3 publish)    *)
(*   the named bean       get_or_default: L1 lookup, (L2 alloc, L3 insert)   *)
(* Intended design: publish / insert are "if absent" and the loser adopts    *)
(* the winner's object.  Named deviations (code before the fix):             *)
(*   "factory_check_then_store"   F3 is a plain store, the storer keeps its  *)
(*                                own factory                                *)
(*   "bean_check_then_insert"     L3 overwrites and the caller returns its   *)
(*                                own object                                 *)
EXTENDS Naturals, Sequences, FiniteSets, TLC, Json

CONSTANTS Threads, Deviations

VARIABLES inst,     \* published factory (0 = none)
          beans,    \* [factory -> bean or 0] for the one name
          pc, fac, mine, got, hist
vars == <<inst, beans, pc, fac, mine, got, hist>>
view == <<inst, beans, pc, fac, mine, got>>

Fdev == "factory_check_then_store" \in Deviations
Bdev == "bean_check_then_insert" \in Deviations
\* objects are numbered by the thread that allocated them
Init == /\ inst = 0 /\ beans = [f \in Threads |-> 0]
        /\ pc = [t \in Threads |-> "F1"] /\ fac = [t \in Threads |-> 0]
        /\ mine = [t \in Threads |-> 0] /\ got = [t \in Threads |-> 0] /\ hist = <<>>

Log(t, a) == hist' = Append(hist, [th |-> t, a |-> a])

F1(t) == /\ pc[t] = "F1" /\ Log(t, "F1")
         /\ IF inst # 0 THEN fac' = [fac EXCEPT ![t] = inst] /\ pc' = [pc EXCEPT ![t] = "L1"]
            ELSE pc' = [pc EXCEPT ![t] = "F3"] /\ UNCHANGED fac
         /\ UNCHANGED <<inst, beans, mine, got>>
F3(t) == /\ pc[t] = "F3" /\ Log(t, "F3")
         /\ IF Fdev \/ inst = 0
            THEN inst' = t /\ fac' = [fac EXCEPT ![t] = t]
            ELSE UNCHANGED inst /\ fac' = [fac EXCEPT ![t] = inst]
         /\ pc' = [pc EXCEPT ![t] = "L1"] /\ UNCHANGED <<beans, mine, got>>
L1(t) == /\ pc[t] = "L1" /\ Log(t, "L1")
         /\ IF beans[fac[t]] # 0
            THEN got' = [got EXCEPT ![t] = beans[fac[t]]] /\ pc' = [pc EXCEPT ![t] = "done"]
            ELSE pc' = [pc EXCEPT ![t] = "L3"] /\ UNCHANGED got
         /\ UNCHANGED <<inst, beans, fac, mine>>
L3(t) == /\ pc[t] = "L3" /\ Log(t, "L3")
         /\ IF Bdev \/ beans[fac[t]] = 0
            THEN beans' = [beans EXCEPT ![fac[t]] = t] /\ got' = [got EXCEPT ![t] = t]
            ELSE UNCHANGED beans /\ got' = [got EXCEPT ![t] = beans[fac[t]]]
         /\ pc' = [pc EXCEPT ![t] = "done"] /\ UNCHANGED <<inst, fac, mine>>

Next == \E t \in Threads : F1(t) \/ F3(t) \/ L1(t) \/ L3(t)
Spec == Init /\ [][Next]_vars

AllDone == \A t \in Threads : pc[t] = "done"
\* C26: everybody received the instance that later lookups return
Unique == AllDone => \A t \in Threads : got[t] = beans[inst]
\* ... and nobody ever holds an instance different from a published one it could have seen
Agree == \A s, t \in Threads : (pc[s] = "done" /\ pc[t] = "done") => got[s] = got[t]
DumpHist == AllDone => PrintT(<<"REPLAY", ToJson(hist)>>)
=============================================================================
