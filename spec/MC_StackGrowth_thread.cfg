SPECIFICATION Spec
CONSTANTS
  MaxDepth = 4
  MaxOps = 9
  Where = "thread"
  Deviations = {}
VIEW view
INVARIANTS Consistent
CHECK_DEADLOCK FALSE
