SPECIFICATION Spec
CONSTANTS
  W = 4
  NsPerSec = 4
  NsPerUsec = 2
  AllowZeroSlice = FALSE
INVARIANTS DeadlineOK SlicesOK SlicesBounded LimitOK
PROPERTIES Terminates
CHECK_DEADLOCK FALSE
