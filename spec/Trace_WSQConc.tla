---------------------------- MODULE Trace_WSQConc ----------------------------
(* Observable layer of property C03 for concurrent executions of the real    *)
(* work-steal queues (harness/src/bin/wsq_conc.rs): records are ordered by a *)
(* process-wide sequence number taken before each push and after each pop.   *)
(*   cpush{item}            an item is about to be pushed (local or shared)  *)
(*   cpop{item}             a pop returned the item                          *)
(*   quiesce{glen}          all threads joined; reported shared length       *)
(*   dgpop{item} / dlpop    the quiescent drain (0 = the queue said empty)   *)
(* Clauses: conc_phantom (popped but never pushed), conc_dup (popped twice), *)
(* conc_len (reported length # number of items the shared drain returned),   *)
(* conc_lost (after the drain some pushed item was never returned).          *)
EXTENDS Naturals, Sequences, FiniteSets, TLC, Json, IOUtils

Rec == ndJsonDeserialize(IOEnv.TRACE)
N == Len(Rec)

VARIABLES l, scen, pushed, popped, glen, sdrain, sdone, nviol
vars == <<l, scen, pushed, popped, glen, sdrain, sdone, nviol>>

Init == l = 1 /\ scen = 0 /\ pushed = {} /\ popped = {} /\ glen = 0 /\ sdrain = 0 /\ sdone = FALSE /\ nviol = 0

Viol(clause, detail) == PrintT(<<"VIOL", l, clause, scen, detail>>)

Pop(x) ==
  LET clause == IF x \notin pushed THEN "conc_phantom" ELSE IF x \in popped THEN "conc_dup" ELSE "ok" IN
  /\ (clause # "ok" => Viol(clause, x))
  /\ nviol' = IF clause # "ok" THEN nviol + 1 ELSE nviol
  /\ popped' = popped \cup {x}

Step ==
  /\ l <= N /\ l' = l + 1
  /\ LET r == Rec[l] ev == r.ev IN
     CASE ev = "creset" -> /\ scen' = r.scenario /\ pushed' = {} /\ popped' = {} /\ glen' = 0
                           /\ sdrain' = 0 /\ sdone' = FALSE /\ UNCHANGED nviol
       [] ev = "cpush" -> pushed' = pushed \cup {r.item} /\ UNCHANGED <<scen, popped, glen, sdrain, sdone, nviol>>
       [] ev = "cpop" -> Pop(r.item) /\ UNCHANGED <<scen, pushed, glen, sdrain, sdone>>
       [] ev = "quiesce" -> glen' = r.glen /\ UNCHANGED <<scen, pushed, popped, sdrain, sdone, nviol>>
       [] ev = "dgpop" ->
            IF r.item = 0
            THEN LET bad == ~sdone /\ sdrain # glen IN
                 /\ (bad => Viol("conc_len", <<glen, sdrain>>))
                 /\ nviol' = IF bad THEN nviol + 1 ELSE nviol
                 /\ sdone' = TRUE /\ UNCHANGED <<scen, pushed, popped, glen, sdrain>>
            ELSE /\ Pop(r.item) /\ sdrain' = IF sdone THEN sdrain ELSE sdrain + 1
                 /\ UNCHANGED <<scen, pushed, glen, sdone>>
       [] ev = "dlpop" ->
            IF r.item = 0 THEN UNCHANGED <<scen, pushed, popped, glen, sdrain, sdone, nviol>>
            ELSE Pop(r.item) /\ UNCHANGED <<scen, pushed, glen, sdrain, sdone>>
       [] ev = "died" -> /\ Viol(r.how, r.msg) /\ nviol' = nviol + 1
                         /\ UNCHANGED <<scen, pushed, popped, glen, sdrain, sdone>>
       [] ev = "cend" ->
            LET bad == "drained" \in DOMAIN r /\ r.drained /\ popped # pushed IN
            /\ (bad => Viol("conc_lost", <<Cardinality(pushed \ popped), Cardinality(pushed)>>))
            /\ nviol' = IF bad THEN nviol + 1 ELSE nviol
            /\ UNCHANGED <<scen, pushed, popped, glen, sdrain, sdone>>

Spec == Init /\ [][Step]_vars
Accepted == /\ PrintT(<<"ACCEPT", TLCGet("stats").diameter - 1, N>>)
            /\ TLCGet("stats").diameter - 1 = N
=============================================================================
