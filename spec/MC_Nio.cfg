SPECIFICATION Spec
CONSTANTS
  Shapes <- ShapesSmall
  MaxN = 3
  MaxCalls = 4
  Deviations = {}
INVARIANTS RequestOK ReturnOK NonblockNeverWaits
CHECK_DEADLOCK FALSE
