SPECIFICATION Spec
CONSTANTS
  NLoops = 2
  NSubs = 2
  PerSub = 2
  MaxStops = 2
  Deviations = {"queue_before_inflight"}
INVARIANTS StopSettles
PROPERTIES Monotone
CHECK_DEADLOCK FALSE
