------------------------------ MODULE EventLoops ------------------------------
(* Design model of task dispatch over several event loops (core/src/net/mod.rs,*)
(* event_loop.rs, join.rs, co_pool) - properties C01 and C02 across loops.     *)
(* Submitter threads take the next loop round-robin and hand their task to     *)
(* that loop's pool; each loop thread pops its own local queue, then the       *)
(* shared queue, then steals from a sibling; the result is stored and the      *)
(* JoinHandle - which remembers the loop the task was submitted to - looks it  *)
(* up.  The per-loop local queue is a single-producer ring: a push is          *)
(* "read tail, write slot, publish tail".                                      *)
(* Named deviations (the code as it is):                                       *)
(*  "non_owner_local_push"  submitters (which are not the owning loop thread)  *)
(*                          push into the loop's single-producer local queue   *)
(*  "results_per_pool"      the result is stored in the pool of the loop that  *)
(*                          ran the task, the handle looks in the pool it was  *)
(*                          submitted to                                       *)
(* Intended design: a non-owner submits through the shared injector queue      *)
(* (multi-producer), and results are found whichever loop ran the task.        *)
EXTENDS Naturals, Sequences, FiniteSets, TLC

CONSTANTS NLoops, NSubs, PerSub, Deviations
Loops == 1..NLoops
Subs == 1..NSubs
Tasks == 1..(NSubs * PerSub)
Dev(d) == d \in Deviations
Local == Dev("non_owner_local_push")

VARIABLES rr, slots, tail, head, shared, spc, snext, starget, stail, handle, ran, resLoc
vars == <<rr, slots, tail, head, shared, spc, snext, starget, stail, handle, ran, resLoc>>

Init == /\ rr = 0 /\ slots = [l \in Loops |-> [i \in 1..(NSubs * PerSub + 1) |-> 0]]
        /\ tail = [l \in Loops |-> 1] /\ head = [l \in Loops |-> 1] /\ shared = <<>>
        /\ spc = [s \in Subs |-> "idle"] /\ snext = [s \in Subs |-> 1] /\ starget = [s \in Subs |-> 0]
        /\ stail = [s \in Subs |-> 0] /\ handle = [t \in Tasks |-> 0] /\ ran = [t \in Tasks |-> 0]
        /\ resLoc = [t \in Tasks |-> 0]

TaskOf(s) == (s - 1) * PerSub + snext[s]

\* EventLoops::submit_task: round_robin, then the push
SubStart(s) ==
  /\ spc[s] = "idle" /\ snext[s] <= PerSub
  /\ LET l == (rr % NLoops) + 1 t == TaskOf(s) IN
     /\ rr' = rr + 1 /\ handle' = [handle EXCEPT ![t] = l] /\ starget' = [starget EXCEPT ![s] = l]
     /\ IF Local
        THEN /\ stail' = [stail EXCEPT ![s] = tail[l]] /\ spc' = [spc EXCEPT ![s] = "P2"]   \* read tail
             /\ UNCHANGED <<shared, snext>>
        ELSE /\ shared' = Append(shared, t) /\ snext' = [snext EXCEPT ![s] = @ + 1]          \* injector push
             /\ UNCHANGED <<stail, spc>>
  /\ UNCHANGED <<slots, tail, head, ran, resLoc>>
P2(s) == /\ spc[s] = "P2"
         /\ slots' = [slots EXCEPT ![starget[s]][stail[s]] = TaskOf(s)] /\ spc' = [spc EXCEPT ![s] = "P3"]
         /\ UNCHANGED <<rr, tail, head, shared, snext, starget, stail, handle, ran, resLoc>>
P3(s) == /\ spc[s] = "P3"
         /\ tail' = [tail EXCEPT ![starget[s]] = stail[s] + 1]
         /\ spc' = [spc EXCEPT ![s] = "idle"] /\ snext' = [snext EXCEPT ![s] = @ + 1]
         /\ UNCHANGED <<rr, slots, head, shared, starget, stail, handle, ran, resLoc>>

Run(l, t) == /\ ran' = [ran EXCEPT ![t] = @ + 1]
             /\ resLoc' = [resLoc EXCEPT ![t] = IF Dev("results_per_pool") THEN l ELSE NLoops + 1]
\* a loop thread takes one task: local queue, else the shared queue, else a sibling's local queue
LoopTake(l) ==
  \/ /\ head[l] < tail[l] /\ slots[l][head[l]] # 0
     /\ Run(l, slots[l][head[l]]) /\ head' = [head EXCEPT ![l] = @ + 1]
     /\ UNCHANGED <<rr, slots, tail, shared, spc, snext, starget, stail, handle>>
  \/ /\ head[l] >= tail[l] /\ shared # <<>>
     /\ Run(l, Head(shared)) /\ shared' = Tail(shared)
     /\ UNCHANGED <<rr, slots, tail, head, spc, snext, starget, stail, handle>>
  \/ /\ head[l] >= tail[l] /\ shared = <<>>
     /\ \E v \in Loops \ {l} : /\ head[v] < tail[v] /\ slots[v][head[v]] # 0
                               /\ Run(l, slots[v][head[v]]) /\ head' = [head EXCEPT ![v] = @ + 1]
     /\ UNCHANGED <<rr, slots, tail, shared, spc, snext, starget, stail, handle>>

Next == (\E s \in Subs : SubStart(s) \/ P2(s) \/ P3(s)) \/ (\E l \in Loops : LoopTake(l))
Spec == Init /\ [][Next]_vars

Submitted == {t \in Tasks : handle[t] # 0}
SubsDone == \A s \in Subs : spc[s] = "idle" /\ snext[s] > PerSub
Quiescent == SubsDone /\ shared = <<>> /\ \A l \in Loops : head[l] >= tail[l]
\* C01
AtMostOnce == \A t \in Tasks : ran[t] <= 1
NoneLost == Quiescent => \A t \in Tasks : ran[t] = 1
\* C02: once a task has run, its handle finds the result (whichever loop ran it)
JoinFinds == \A t \in Tasks : ran[t] >= 1 => resLoc[t] \in {handle[t], NLoops + 1}
=============================================================================
