SPECIFICATION Spec
CONSTANTS
  Shapes <- ShapesSmall
  MaxN = 3
  MaxCalls = 4
  Deviations = {"nonblock_waits"}
INVARIANTS RequestOK ReturnOK NonblockNeverWaits
CHECK_DEADLOCK FALSE
