SPECIFICATION Spec
CONSTANTS
  Callers = {"r", "w", "x"}
  MaxEnters = 2
  Deviations = {}
INVARIANTS CallersModeRespected NonblockNeverWaits ModeRestoredWhenQuiet NeverAsksBlocking
CHECK_DEADLOCK FALSE
