SPECIFICATION Spec
CONSTANTS
  NCo = 2
  MaxSteps = 3
  MaxT = 4
  MaxOps = 14
  Deviations = {}
VIEW view
INVARIANTS NoViolation ResultOnce ReadyExact
PROPERTIES OthersUnaffected
CHECK_DEADLOCK FALSE
