SPECIFICATION Spec
CONSTANTS
  MaxCalls = 3
  Deviations = {"nonblock_waits"}
INVARIANTS NonblockNeverWaits ModeRestored NeverAsksBlocking ReturnOK
CHECK_DEADLOCK FALSE
