----------------------------- MODULE Trace_SockOpt -----------------------------
(* Observable layer of property C19 (harness/src/bin/sockopt.rs): after every  *)
(* hooked I/O the limit the runtime applies must equal the socket's current    *)
(* option value read back from the kernel (getsockopt), zero meaning no limit; *)
(* no operation may kill the process.                                          *)
EXTENDS Naturals, Integers, Sequences, TLC, Json, IOUtils
Rec == ndJsonDeserialize(IOEnv.TRACE)
N == Len(Rec)
VARIABLES l, scen, nviol
vars == <<l, scen, nviol>>
Init == l = 1 /\ scen = 0 /\ nviol = 0
Viol(clause, detail) == PrintT(<<"VIOL", l, clause, scen, detail>>)
Step ==
  /\ l <= N /\ l' = l + 1
  /\ LET r == Rec[l] ev == r.ev IN
     CASE ev = "oreset" -> scen' = r.scenario /\ UNCHANGED nviol
       [] ev \in {"op", "oend"} -> UNCHANGED <<scen, nviol>>
       [] ev = "limit" ->
            \* applied / kernel are in milliseconds; -1 = unlimited
            \* the kernel rounds a timeout up to its tick (at most 10 ms), the runtime remembers the
            \* value that was set: equal up to one tick
            LET diff == IF r.applied > r.kernel THEN r.applied - r.kernel ELSE r.kernel - r.applied
                bad == IF r.kernel = 0 THEN r.applied # -1 ELSE (r.applied = -1 \/ diff > 10) IN
            /\ (bad => Viol("stale_limit", <<r.slot, r.dir, r.applied, r.kernel>>))
            /\ nviol' = (IF bad THEN nviol + 1 ELSE nviol) /\ UNCHANGED scen
       [] ev = "died" -> Viol(r.how, r.msg) /\ nviol' = nviol + 1 /\ UNCHANGED scen
Spec == Init /\ [][Step]_vars
Accepted == /\ PrintT(<<"ACCEPT", TLCGet("stats").diameter - 1, N>>)
            /\ TLCGet("stats").diameter - 1 = N
=============================================================================
