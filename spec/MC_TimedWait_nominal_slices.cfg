SPECIFICATION Spec
CONSTANTS
  MaxT = 40
  Slice = 10
  Deviations = {"nominal_slices"}
INVARIANTS NeverEarly NotLate InvalidRejected
PROPERTIES Terminates
CHECK_DEADLOCK FALSE
