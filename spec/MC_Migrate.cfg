SPECIFICATION Spec
CONSTANTS
  Threads = {"t1", "t2"}
  Co = {1, 2, 3}
  MaxSusp = 2
  Deviations = {}
INVARIANTS NoViolation CurrentExact BodyFindsOwn TypeOK
PROPERTY AllDone
CHECK_DEADLOCK FALSE
