---------------------------- MODULE Trace_IoUring ----------------------------
(* Observable layer of property C27 (harness/src/bin/uring.rs, built with the  *)
(* io_uring feature).  Every caller reads from a descriptor of its own that is *)
(* fed one payload whose length and bytes name the caller, so the value a call *)
(* returns and the data it received show whose completion it got              *)
(* (IoUring!OwnResult); `cqe` records come from the event loop's completion    *)
(* dispatch (hook): a completion that finds no slot while calls are in         *)
(* progress is IoUring!NoLostCompletion.                                       *)
(*   wrong_result   a call returned another length than its own payload's, or  *)
(*                  foreign bytes                                              *)
(*   wrong_errno    a call that had to fail returned something else than -1    *)
(*                  with the errno of its own failure                          *)
(*   no_timeout     (scenario "again") the first recv was meant to run into    *)
(*                  its time limit and did not                                 *)
(*   lost_completion  a completion was dispatched without finding a slot and a *)
(*                  call never came back                                       *)
(*   abort / hang / panic   the process died or a call never returned          *)
EXTENDS Naturals, Integers, Sequences, FiniteSets, TLC, Json, IOUtils
Rec == ndJsonDeserialize(IOEnv.TRACE)
N == Len(Rec)
VARIABLES l, scen, kind, open, missed, ncqe, nviol
vars == <<l, scen, kind, open, missed, ncqe, nviol>>
Init == l = 1 /\ scen = 0 /\ kind = "" /\ open = <<>> /\ missed = 0 /\ ncqe = 0 /\ nviol = 0
Viol(clause, detail) == PrintT(<<"VIOL", l, clause, scen, detail>>)
Count(b) == IF b THEN 1 ELSE 0
Put(f, k, v) == (k :> v) @@ f
Drop(f, k) == [x \in (DOMAIN f) \ {k} |-> f[x]]
Step ==
  /\ l <= N /\ l' = l + 1
  /\ LET r == Rec[l] ev == r.ev IN
     CASE ev = "ureset" -> /\ scen' = r.scenario /\ kind' = r.kind /\ open' = <<>> /\ missed' = 0 /\ ncqe' = 0 /\ UNCHANGED nviol
       [] ev = "ucall_b" -> /\ open' = Put(open, r.caller, [want |-> r.want, werr |-> r.want_errno])
                            /\ UNCHANGED <<scen, kind, missed, ncqe, nviol>>
       [] ev = "ucall_e" ->
            LET w == IF r.caller \in DOMAIN open THEN open[r.caller] ELSE [want |-> r.ret, werr |-> 0]
                timed == "timeout" \in DOMAIN r
                b1 == ~timed /\ w.werr = 0 /\ (r.ret # w.want \/ ~r.data_ok)
                b2 == ~timed /\ w.werr > 0 /\ (r.ret # -1 \/ r.errno # w.werr)
                b3 == timed /\ r.ret # -1
            IN /\ (b1 => Viol("wrong_result", <<r.caller, r.ret, w.want, r.tag>>))
               /\ (b2 => Viol("wrong_errno", <<r.caller, r.ret, r.errno, w.werr>>))
               /\ (b3 => Viol("no_timeout", <<r.caller, r.ret>>))
               /\ nviol' = nviol + Count(b1) + Count(b2) + Count(b3)
               /\ open' = IF r.caller \in DOMAIN open THEN Drop(open, r.caller) ELSE open
               /\ UNCHANGED <<scen, kind, missed, ncqe>>
       [] ev = "cqe" -> /\ ncqe' = ncqe + 1 /\ missed' = missed + Count(~r.found)
                        /\ UNCHANGED <<scen, kind, open, nviol>>
       [] ev = "burst_done" -> UNCHANGED <<scen, kind, open, missed, ncqe, nviol>>
       [] ev = "died" ->
            LET lost == r.how = "hang" /\ missed > 0 IN
            /\ Viol(IF lost THEN "lost_completion" ELSE r.how, <<r.msg, missed, DOMAIN open>>)
            /\ nviol' = nviol + 1 /\ UNCHANGED <<scen, kind, open, missed, ncqe>>
       [] ev = "uend" -> /\ PrintT(<<"STAT", scen, ncqe>>) /\ UNCHANGED <<scen, kind, open, missed, ncqe, nviol>>
Spec == Init /\ [][Step]_vars
Accepted == /\ PrintT(<<"ACCEPT", TLCGet("stats").diameter - 1, N>>)
            /\ TLCGet("stats").diameter - 1 = N
=============================================================================
