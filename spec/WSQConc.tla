------------------------------- MODULE WSQConc -------------------------------
(* Design model of the *shared* part of the work-steal queues under          *)
(* concurrency (property C03): several threads push to / pop from the        *)
(* shared injector queue, whose length counter `len` is kept beside it.      *)
(* The injector itself (crossbeam) is trusted to be linearizable and is one  *)
(* atomic step; what open-coroutine adds around it is step-level:            *)
(*   push:  count the item (atomic add), then inject it                      *)
(*   pop :  Q1 fast path `len = 0 -> None`;  Q2 steal;  Q3 atomic sub        *)
(* so the counter never under-reports and is exact at quiescence.            *)
(* Named deviation "len_lost_update" = the code before the fix: inject       *)
(* first, then `len.store(len.load() + 1)` (load and store are two steps),   *)
(* and a saturating load/store decrement after the steal.  TLC shows two     *)
(* defects of that design: lost updates, and - even with atomic updates -    *)
(* a pop that overtakes the pusher's increment saturates at 0 and leaves     *)
(* the counter one too high for ever.                                        *)
(* Named deviation "pop_claims_first" (seeded/C01, seeded/C03): pop takes    *)
(* its item out of the counter before it looks into the injector and does    *)
(* not give the claim back when it finds nothing - a pop that lands between  *)
(* the two halves of a push makes the counter under-report for ever.         *)
EXTENDS Naturals, Sequences, FiniteSets, TLC

CONSTANTS Threads, MaxOps, Deviations

VARIABLES shared,    \* sequence of items in the injector
          glen,      \* the counter
          pc,        \* [Threads -> control state]
          tmp,       \* [Threads -> Nat] value loaded by a split counter update
          ops,       \* [Threads -> Nat] operations started
          got,       \* set of items returned by pops
          nxt        \* next item

vars == <<shared, glen, pc, tmp, ops, got, nxt>>
Split == "len_lost_update" \in Deviations
Claim == "pop_claims_first" \in Deviations
SatSub(a, b) == IF a >= b THEN a - b ELSE 0

Init == /\ shared = <<>> /\ glen = 0 /\ pc = [t \in Threads |-> "idle"]
        /\ tmp = [t \in Threads |-> 0] /\ ops = [t \in Threads |-> 0] /\ got = {} /\ nxt = 1

StartPush(t) == /\ pc[t] = "idle" /\ ops[t] < MaxOps /\ Split
                /\ shared' = Append(shared, nxt) /\ nxt' = nxt + 1        \* inject first
                /\ ops' = [ops EXCEPT ![t] = @ + 1]
                /\ pc' = [pc EXCEPT ![t] = "P2"]
                /\ UNCHANGED <<glen, tmp, got>>
IncAtomic(t) == /\ pc[t] = "idle" /\ ops[t] < MaxOps /\ ~Split            \* count first
                /\ glen' = glen + 1 /\ pc' = [pc EXCEPT ![t] = "PI"]
                /\ ops' = [ops EXCEPT ![t] = @ + 1]
                /\ UNCHANGED <<shared, tmp, got, nxt>>
Inject(t)    == /\ pc[t] = "PI"
                /\ shared' = Append(shared, nxt) /\ nxt' = nxt + 1
                /\ pc' = [pc EXCEPT ![t] = "idle"]
                /\ UNCHANGED <<glen, tmp, ops, got>>
IncLoad(t)   == /\ pc[t] = "P2" /\ Split
                /\ tmp' = [tmp EXCEPT ![t] = glen] /\ pc' = [pc EXCEPT ![t] = "P3"]
                /\ UNCHANGED <<shared, glen, ops, got, nxt>>
IncStore(t)  == /\ pc[t] = "P3"
                /\ glen' = tmp[t] + 1 /\ pc' = [pc EXCEPT ![t] = "idle"]
                /\ UNCHANGED <<shared, tmp, ops, got, nxt>>

StartPop(t)  == /\ pc[t] = "idle" /\ ops[t] < MaxOps /\ ~Claim
                /\ ops' = [ops EXCEPT ![t] = @ + 1]
                /\ pc' = [pc EXCEPT ![t] = IF glen = 0 THEN "idle" ELSE "Q2"]   \* Q1 fast path
                /\ UNCHANGED <<shared, glen, tmp, got, nxt>>
Steal(t)     == /\ pc[t] = "Q2"
                /\ IF shared = <<>>
                   THEN pc' = [pc EXCEPT ![t] = "idle"] /\ UNCHANGED <<shared, got>>
                   ELSE /\ got' = got \cup {Head(shared)} /\ shared' = Tail(shared)
                        /\ pc' = [pc EXCEPT ![t] = "Q3"]
                /\ UNCHANGED <<glen, tmp, ops, nxt>>
\* deviation: claim first (atomic checked sub), then look; an empty look keeps the claim
ClaimPop(t)  == /\ pc[t] = "idle" /\ ops[t] < MaxOps /\ Claim
                /\ ops' = [ops EXCEPT ![t] = @ + 1]
                /\ IF glen = 0 THEN UNCHANGED <<glen, pc>>
                   ELSE glen' = glen - 1 /\ pc' = [pc EXCEPT ![t] = "QC"]
                /\ UNCHANGED <<shared, tmp, got, nxt>>
StealClaimed(t) == /\ pc[t] = "QC"
                   /\ IF shared = <<>> THEN UNCHANGED <<shared, got>>
                      ELSE got' = got \cup {Head(shared)} /\ shared' = Tail(shared)
                   /\ pc' = [pc EXCEPT ![t] = "idle"]
                   /\ UNCHANGED <<glen, tmp, ops, nxt>>
DecAtomic(t) == /\ pc[t] = "Q3" /\ ~Split
                /\ glen > 0                       \* never below zero: checked by NoUnderflow
                /\ glen' = glen - 1 /\ pc' = [pc EXCEPT ![t] = "idle"]
                /\ UNCHANGED <<shared, tmp, ops, got, nxt>>
DecLoad(t)   == /\ pc[t] = "Q3" /\ Split
                /\ tmp' = [tmp EXCEPT ![t] = glen] /\ pc' = [pc EXCEPT ![t] = "Q4"]
                /\ UNCHANGED <<shared, glen, ops, got, nxt>>
DecStore(t)  == /\ pc[t] = "Q4"
                /\ glen' = SatSub(tmp[t], 1) /\ pc' = [pc EXCEPT ![t] = "idle"]
                /\ UNCHANGED <<shared, tmp, ops, got, nxt>>

Next == \E t \in Threads :
          \/ StartPush(t) \/ IncAtomic(t) \/ Inject(t) \/ IncLoad(t) \/ IncStore(t)
          \/ StartPop(t) \/ ClaimPop(t) \/ StealClaimed(t) \/ Steal(t) \/ DecAtomic(t) \/ DecLoad(t) \/ DecStore(t)
Spec == Init /\ [][Next]_vars

Quiescent == \A t \in Threads : pc[t] = "idle"
RECURSIVE SeqSet(_)
SeqSet(s) == IF s = <<>> THEN {} ELSE {Head(s)} \cup SeqSet(Tail(s))
\* C03: every pushed item is either still in the queue or was returned exactly once
Conserve == /\ SeqSet(shared) \cap got = {}
            /\ SeqSet(shared) \cup got = 1..(nxt - 1)
            /\ Cardinality(SeqSet(shared)) = Len(shared)
\* C03: once all threads stop, the reported length is exact - hence a drain by
\* pop() (whose fast path trusts the counter) returns exactly the remaining items
QuiescentLenExact == Quiescent => glen = Len(shared)
\* items are never stranded behind the fast path
NeverStranded == (Quiescent /\ shared # <<>>) => glen > 0
\* intended design: the counter never under-reports, so the atomic sub cannot underflow
NoUnderflow == (~Split /\ ~Claim) => glen >= Len(shared) + Cardinality({t \in Threads : pc[t] = "Q3"})
=============================================================================
