SPECIFICATION Spec
CONSTANTS
  Threads = {1, 2}
  MaxT = 6
  Slice = 2
  Deviations = {"unsync_set"}
INVARIANTS NotCorrupt SyscallNeverPreempted BusyPreempted
CHECK_DEADLOCK FALSE
