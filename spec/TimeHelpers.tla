----------------------------- MODULE TimeHelpers -----------------------------
(* Time and slicing helpers (property C28), transcribed with a word size W:  *)
(*   get_timeout_time(dur)      core/src/common/mod.rs                       *)
(*   get_slices(total, slice)   core/src/common/mod.rs  (the loop, step-level)*)
(*   get_time_limit(timeval)    core/src/syscall/unix/mod.rs                 *)
(* MAX = 2^W - 1 plays u64::MAX.  A duration argument ranges over 0..MAX+1,  *)
(* where MAX+1 stands for "more nanoseconds than fit the word".              *)
(* TLC checks every value for W = 4; the harness replays every case on the   *)
(* real functions at x * 0x1111111111111111 (15 * that = u64::MAX).          *)
EXTENDS TimeOps, TLC, Json

CONSTANTS
          AllowZeroSlice   \* FALSE: the property's precondition (non-zero slice); TRUE shows why it is needed
VARIABLES fn, a, b, pc, left, pieces, steps, res
vars == <<fn, a, b, pc, left, pieces, steps, res>>

Init ==
  /\ pc = "start" /\ left = 0 /\ pieces = <<>> /\ steps = 0 /\ res = 0
  /\ \/ fn = "deadline" /\ a \in 0..(MAX + 1) /\ b \in 0..MAX
     \/ fn = "slices" /\ a \in 0..MAX /\ b \in (IF AllowZeroSlice THEN 0 ELSE 1)..MAX
     \/ fn = "limit" /\ a \in 0..MAX /\ b \in 0..MAX

DoDeadline == /\ fn = "deadline" /\ pc = "start" /\ res' = Deadline(a, b) /\ pc' = "done"
              /\ UNCHANGED <<fn, a, b, left, pieces, steps>>
DoLimit == /\ fn = "limit" /\ pc = "start" /\ res' = Limit(a, b) /\ pc' = "done"
           /\ UNCHANGED <<fn, a, b, left, pieces, steps>>
\* get_slices: `if total == 0 return; left = total; while left > slice {push slice; left -= slice}; push left`
SlStart == /\ fn = "slices" /\ pc = "start"
           /\ IF a = 0 THEN pc' = "done" /\ UNCHANGED left ELSE pc' = "loop" /\ left' = a
           /\ UNCHANGED <<fn, a, b, pieces, steps, res>>
SlLoop == /\ fn = "slices" /\ pc = "loop" /\ steps' = steps + 1
          /\ IF left > b
             THEN pieces' = Append(pieces, b) /\ left' = left - b /\ pc' = "loop"
             ELSE pieces' = Append(pieces, left) /\ pc' = "done" /\ UNCHANGED left
          /\ UNCHANGED <<fn, a, b, res>>
Next == DoDeadline \/ DoLimit \/ SlStart \/ SlLoop
Spec == Init /\ [][Next]_vars /\ WF_vars(Next)

\* C28
DeadlineOK == (fn = "deadline" /\ pc = "done") =>
                /\ res <= MAX                                  \* never wraps
                /\ (a <= MAX /\ a + b <= MAX => res = a + b)   \* exact when it fits
                /\ (a > MAX \/ a + b > MAX => res = MAX)       \* saturates otherwise
SlicesOK == (fn = "slices" /\ pc = "done") =>
                /\ pieces = SlicesOf(a, b)                     \* the closed form used by the trace specification
                /\ \A i \in DOMAIN pieces : pieces[i] <= b /\ pieces[i] > 0
                /\ Sum(pieces) = a
SlicesBounded == fn = "slices" => steps <= a                   \* the loop makes progress
LimitOK == (fn = "limit" /\ pc = "done") =>
                /\ ((a = 0 /\ b = 0) => res = MAX)            \* zero means unlimited
                /\ ((a # 0 \/ b # 0) => res = SatAdd(SatMul(a, NsPerSec), SatMul(b, NsPerUsec)))
                /\ res > 0
Terminates == <>(pc = "done")
DumpCase == pc = "done" => PrintT(<<"REPLAY", ToJson([fn |-> fn, a |-> a, b |-> b, res |-> res, pieces |-> pieces])>>)
=============================================================================
