SPECIFICATION Spec
CONSTANTS
  NLoops = 1
  Fds = {1, 2}
  Halves = {1, 2}
  MaxOps = 6
  Deviations = {"record_token_kept"}
VIEW view
INVARIANTS InterestExact NoViolation TokenOfWaiter
CHECK_DEADLOCK FALSE
