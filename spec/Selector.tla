------------------------------- MODULE Selector -------------------------------
(* Readiness interest bookkeeping and token dispatch (properties C21 and C20):  *)
(* core/src/net/selector/{mod,mio_adapter}.rs, net/mod.rs, event_loop.rs.       *)
(* Each event loop has its own OS poller (osreg[l][fd] = set of interests the   *)
(* kernel has been told); the runtime keeps records of what it believes is      *)
(* registered.  A coroutine waiting on a descriptor registers with a token made *)
(* from its 64-bit id; a readiness event carries the token back and the loop    *)
(* resumes the coroutine with that id.  Ids are pairs <<hi, lo>> of 32-bit      *)
(* halves over a small domain.                                                  *)
(* Named deviations (the code as it is):                                        *)
(*  "records_global"  the records are process-wide sets keyed by descriptor     *)
(*                    number although every loop has its own poller             *)
(*  "token_fold32"    the token registered is hi XOR lo (32 bits) while the     *)
(*                    lookup on an event uses the token as a full 64-bit id     *)
(*  "stale_token_on_rewait"  a wait on a descriptor whose interest is already  *)
(*                    recorded returns at once, leaving the token of the        *)
(*                    coroutine that registered first                           *)
(*  "record_token_kept"  a wait by another coroutine re-registers the          *)
(*                    descriptor with its token but the runtime's record keeps  *)
(*                    the token that was there: when the first coroutine waits  *)
(*                    again the record says "mine" and the kernel still holds   *)
(*                    the other one's token (seeded/C20)                        *)
(*  "resume_without_fd_check"  an event resumes the coroutine named by the      *)
(*                    token whatever descriptor that coroutine waits on now     *)
EXTENDS Naturals, Sequences, FiniteSets, TLC, Json

CONSTANTS NLoops, Fds, Halves, MaxOps, Deviations
Loops == 1..NLoops
Ints == {"R", "W"}
Ids == Halves \X Halves
Dev(d) == d \in Deviations
Xor(a, b) == IF a = b THEN 0 ELSE IF a = 0 THEN b ELSE IF b = 0 THEN a ELSE a + b   \* injective enough on {0,1,2}
Enc(id) == IF Dev("token_fold32") THEN <<0, Xor(id[1], id[2])>> ELSE id

VARIABLES osreg,     \* [Loops -> [Fds -> SUBSET Ints]]   what the kernel was told, with the token
          ostok,     \* [Loops -> [Fds -> token]]
          recs,      \* the runtime's records: [Loops -> [Fds -> SUBSET Ints]] (all loops share entry 1 if global)
          rectok,    \* [Loops -> [Fds -> token]]  the token the runtime believes is registered
          want,      \* [Loops -> [Fds -> SUBSET Ints]]   outstanding interests by the API history
          parked,    \* [Ids -> <<loop, fd>> or <<0, 0>>]  coroutines waiting for readiness
          woken,     \* set of <<id, how>>, how \in {"callback"}
          viol, hist
vars == <<osreg, ostok, recs, rectok, want, parked, woken, viol, hist>>
view == <<osreg, ostok, recs, rectok, want, parked, woken, viol, Len(hist)>>

R(l) == IF Dev("records_global") THEN 1 ELSE l
Init == /\ osreg = [l \in Loops |-> [f \in Fds |-> {}]] /\ ostok = [l \in Loops |-> [f \in Fds |-> <<0, 0>>]]
        /\ rectok = [l \in Loops |-> [f \in Fds |-> <<0, 0>>]]
        /\ recs = [l \in Loops |-> [f \in Fds |-> {}]] /\ want = [l \in Loops |-> [f \in Fds |-> {}]]
        /\ parked = [i \in Ids |-> <<0, 0>>] /\ woken = {} /\ viol = "none" /\ hist = <<>>
Go == viol = "none" /\ Len(hist) < MaxOps

\* wait_read_event / wait_write_event on loop l by coroutine id
Wait(l, f, k, id) ==
  /\ Go /\ parked[id] = <<0, 0>>
  /\ \A i \in Ids : parked[i][2] # f          \* one waiter per descriptor at a time (one token per registration)
  /\ hist' = Append(hist, [op |-> "wait", loop |-> l, fd |-> f, kind |-> k])
  /\ want' = [want EXCEPT ![l][f] = @ \cup {k}]
  /\ IF k \in recs[R(l)][f]
     THEN \* "already registered": the intended design still makes the registration carry this waiter's token:
          \* if the recorded token is not this waiter's, the descriptor is registered again and the record updated
          /\ IF Dev("stale_token_on_rewait") \/ rectok[R(l)][f] = Enc(id)
             THEN UNCHANGED <<ostok, rectok>>
             ELSE /\ ostok' = [ostok EXCEPT ![l][f] = Enc(id)]
                  /\ rectok' = IF Dev("record_token_kept") THEN rectok ELSE [rectok EXCEPT ![R(l)][f] = Enc(id)]
          /\ UNCHANGED <<osreg, recs>>
     ELSE /\ osreg' = [osreg EXCEPT ![l][f] = recs[R(l)][f] \cup {k}]
          /\ ostok' = [ostok EXCEPT ![l][f] = Enc(id)]
          /\ rectok' = [rectok EXCEPT ![R(l)][f] = Enc(id)]
          /\ recs' = [recs EXCEPT ![R(l)][f] = @ \cup {k}]
  /\ parked' = [parked EXCEPT ![id] = <<l, f>>]
  /\ UNCHANGED <<woken, viol>>

\* the wait runs into its time limit: the coroutine stops waiting, the registration stays as it is
Timeout(id) ==
  /\ Go /\ parked[id] # <<0, 0>>
  /\ hist' = Append(hist, [op |-> "timeout", loop |-> parked[id][1], fd |-> parked[id][2]])
  /\ parked' = [parked EXCEPT ![id] = <<0, 0>>]
  /\ UNCHANGED <<osreg, ostok, recs, rectok, want, woken, viol>>

\* del_read_event / del_write_event / del_event on loop l
Del(l, f, ks) ==
  /\ Go /\ hist' = Append(hist, [op |-> "del", loop |-> l, fd |-> f, kinds |-> ks])
  /\ want' = [want EXCEPT ![l][f] = @ \ ks]
  /\ IF recs[R(l)][f] \cap ks = {} THEN UNCHANGED <<osreg, recs>>
     ELSE /\ osreg' = [osreg EXCEPT ![l][f] = recs[R(l)][f] \ ks]
          /\ recs' = [recs EXCEPT ![R(l)][f] = @ \ ks]
  /\ UNCHANGED <<ostok, rectok, parked, woken, viol>>

\* close from a plain thread: the interest is removed from every loop, the number may be reused
Close(f) ==
  /\ Go /\ hist' = Append(hist, [op |-> "close", fd |-> f])
  /\ want' = [l \in Loops |-> [want[l] EXCEPT ![f] = {}]]
  /\ osreg' = [l \in Loops |-> [osreg[l] EXCEPT ![f] = {}]]      \* the kernel forgets a closed descriptor
  /\ recs' = [l \in Loops |-> [recs[l] EXCEPT ![f] = {}]]
  /\ parked' = [i \in Ids |-> IF parked[i][2] = f THEN <<0, 0>> ELSE parked[i]]
  /\ UNCHANGED <<ostok, rectok, woken, viol>>

\* the kernel reports readiness of f on loop l with the registered token; the loop resumes by token
Ready(l, f) ==
  /\ Go /\ osreg[l][f] # {}
  /\ hist' = Append(hist, [op |-> "ready", loop |-> l, fd |-> f])
  /\ LET tok == ostok[l][f]
         \* lookup uses the token as an id; the intended design also checks that the coroutine
         \* waits on this very descriptor (a registration outlives the wait that made it)
         hit == {i \in Ids : i = tok /\ parked[i] # <<0, 0>> /\ (Dev("resume_without_fd_check") \/ parked[i][2] = f)}
         waiting == {i \in Ids : parked[i] = <<l, f>>}
     IN /\ woken' = woken \cup {<<i, "callback">> : i \in hit}
        /\ parked' = [i \in Ids |-> IF i \in hit THEN <<0, 0>> ELSE parked[i]]
        /\ viol' = IF \E i \in hit : parked[i][2] # f THEN "cross_wake"
                   ELSE IF waiting # {} /\ hit \cap waiting = {} THEN "not_woken_by_event" ELSE viol
  /\ UNCHANGED <<osreg, ostok, recs, rectok, want>>

Next == \/ \E l \in Loops, f \in Fds, k \in Ints, id \in Ids : Wait(l, f, k, id)
        \/ \E l \in Loops, f \in Fds, ks \in {{"R"}, {"W"}, {"R", "W"}} : Del(l, f, ks)
        \/ \E f \in Fds : Close(f)
        \/ \E id \in Ids : Timeout(id)
        \/ \E l \in Loops, f \in Fds : Ready(l, f)
Spec == Init /\ [][Next]_vars

\* C21: the OS interest of every descriptor on every loop is the union of the outstanding interests
InterestExact == \A l \in Loops, f \in Fds : osreg[l][f] = want[l][f]
\* C20: readiness wakes exactly the coroutine waiting on that descriptor, by the event itself
NoViolation == viol = "none"
\* C20: the kernel's registration for a descriptor carries the token of the coroutine that waits on it
TokenOfWaiter == \A i \in Ids : parked[i] # <<0, 0>> => ostok[parked[i][1]][parked[i][2]] = Enc(i)
DumpHist == (Len(hist) = MaxOps) => PrintT(<<"REPLAY", ToJson(hist)>>)
=============================================================================
