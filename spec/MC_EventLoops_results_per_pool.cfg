SPECIFICATION Spec
CONSTANTS
  NLoops = 2
  NSubs = 2
  PerSub = 2
  Deviations = {"results_per_pool"}
INVARIANTS AtMostOnce NoneLost JoinFinds
CHECK_DEADLOCK FALSE
