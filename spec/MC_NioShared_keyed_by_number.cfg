SPECIFICATION Spec
CONSTANTS
  Callers = {"r", "w", "x"}
  MaxEnters = 2
  Deviations = {"keyed_by_number"}
INVARIANTS CallersModeRespected NonblockNeverWaits ModeRestoredWhenQuiet NeverAsksBlocking NoAbort
CHECK_DEADLOCK FALSE
