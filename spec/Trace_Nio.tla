------------------------------- MODULE Trace_Nio -------------------------------
(* Observable layer of properties C16, C17, C18: validates what the real hooked *)
(* socket calls handed to the scripted kernel and what they returned            *)
(* (harness/src/bin/nio.rs).                                                    *)
(*  C17  iov_range    a request is not the caller's unfilled remainder          *)
(*       iov_count    the announced element count is not the array's length     *)
(*  C16  ret_total    bytes were moved but the call did not return their number *)
(*       ret_minus1   -1 returned although bytes were moved / >= 0 with nothing *)
(*       zero_len     a zero-length request did not return 0                    *)
(*       errno        -1 with an errno that is not the failing call's           *)
(*       placement    the bytes moved are not the next bytes of the stream, in  *)
(*                    order, in the caller's buffers (or a byte moved twice)    *)
(*  C18  nonblock_waited  the kernel was asked again after EAGAIN on a          *)
(*                        descriptor the caller had made non-blocking, or the   *)
(*                        hook started to wait for its readiness (fd_wait)      *)
(*       mode_changed     the descriptor's blocking mode after the call differs *)
(*                        from what the caller set; in a duplex scenario: once  *)
(*                        both calls have returned (NioShared!ModeRestored-     *)
(*                        WhenQuiet)                                            *)
(*  observations outside the listed properties (duplex scenarios, NioShared):   *)
(*       blocking_eagain_at_once  a caller that left the descriptor blocking    *)
(*                        got the kernel's would-block back without any wait    *)
(*                        (NioShared!CallersModeRespected)                      *)
(*       asked_blocking   the kernel was asked while the descriptor was         *)
(*                        blocking (NioShared!NeverAsksBlocking)                *)
EXTENDS NioOps, FiniteSets, TLC, Json, IOUtils

Rec == ndJsonDeserialize(IOEnv.TRACE)
N == Len(Rec)
EAGAIN == 11
EINTR == 4
ECONNRESET == 104

VARIABLES l, scen, shape, vec, isRead, nonblock, before,
          total, lastResp, sawBlock, sawEof, nviol,
          inCall,   \* between call_b and call_e
          wWaits,   \* waits of the call's own kind the hook has started during the call
          readerIn  \* (duplex scenarios) the reader's hooked recv is in progress
vars == <<l, scen, shape, vec, isRead, nonblock, before, total, lastResp, sawBlock, sawEof, nviol, inCall, wWaits, readerIn>>
Init == /\ l = 1 /\ scen = 0 /\ shape = <<>> /\ vec = FALSE /\ isRead = TRUE /\ nonblock = FALSE /\ before = FALSE
        /\ total = 0 /\ lastResp = "none" /\ sawBlock = FALSE /\ sawEof = FALSE /\ nviol = 0 /\ inCall = FALSE /\ wWaits = 0 /\ readerIn = FALSE
Viol(clause, detail) == PrintT(<<"VIOL", l, clause, scen, detail>>)
vars2 == <<scen, shape, vec, isRead, nonblock, before, total, lastResp, sawBlock, sawEof, nviol, inCall, wWaits, readerIn>>
Count(b) == IF b THEN 1 ELSE 0
Triples(iov) == [i \in DOMAIN iov |-> <<iov[i][1], iov[i][2], iov[i][3]>>]

Step ==
  /\ l <= N /\ l' = l + 1
  /\ LET r == Rec[l] ev == r.ev IN
     CASE ev = "nreset" ->
            /\ scen' = r.scenario /\ shape' = r.shape /\ vec' = r.vec /\ isRead' = r.isRead /\ nonblock' = r.nonblock
            /\ total' = 0 /\ lastResp' = "none" /\ sawBlock' = FALSE /\ sawEof' = FALSE /\ before' = r.nonblock
            /\ inCall' = FALSE /\ wWaits' = 0 /\ readerIn' = FALSE
            /\ UNCHANGED nviol
       [] ev = "call_b" -> before' = r.fl_nonblock /\ inCall' = TRUE /\ wWaits' = 0
                           /\ UNCHANGED <<scen, shape, vec, isRead, nonblock, total, lastResp, sawBlock, sawEof, nviol, readerIn>>
       [] ev = "fd_wait" ->
            LET mine == inCall /\ r.own /\ r.kind = (IF isRead THEN "r" ELSE "w")
                b1 == mine /\ nonblock
            IN /\ (b1 => Viol("nonblock_waited", <<total, "wait for readiness">>))
               /\ nviol' = nviol + Count(b1)
               /\ wWaits' = wWaits + Count(mine)
               /\ UNCHANGED <<scen, shape, vec, isRead, nonblock, before, total, lastResp, sawBlock, sawEof, inCall, readerIn>>
       [] ev \in {"rd_b", "rd_e"} -> /\ readerIn' = (ev = "rd_b")
                                     /\ UNCHANGED <<scen, shape, vec, isRead, nonblock, before, total, lastResp, sawBlock, sawEof, nviol, inCall, wWaits>>
       [] ev = "quiet" ->
            \* (a reader that has not come back within the driver's patience is still inside its call)
            LET b1 == r.reader_back /\ r.fl_nonblock # nonblock
            IN /\ (b1 => Viol("mode_changed", <<"both calls have returned", nonblock, r.fl_nonblock>>))
               /\ nviol' = nviol + Count(b1)
               /\ UNCHANGED <<scen, shape, vec, isRead, nonblock, before, total, lastResp, sawBlock, sawEof, inCall, wWaits, readerIn>>
       [] ev = "inner" ->
            LET got == NonEmpty(Triples(r.iov))
                want == NonEmpty(Remainder(shape, total))
                b1 == got # want
                b2 == vec /\ r.cnt # Len(r.iov)
                b3 == nonblock /\ sawBlock
                b4 == ~r.fl_nonblock
            IN /\ (b1 => Viol("iov_range", <<total, Triples(r.iov), Remainder(shape, total)>>))
               /\ (b2 => Viol("iov_count", <<r.cnt, Len(r.iov)>>))
               /\ (b3 => Viol("nonblock_waited", <<total>>))
               /\ (b4 => Viol("asked_blocking", <<total>>))
               /\ nviol' = nviol + Count(b1) + Count(b2) + Count(b3) + Count(b4)
               /\ UNCHANGED <<scen, shape, vec, isRead, nonblock, before, total, lastResp, sawBlock, sawEof, inCall, wWaits, readerIn>>
       [] ev = "inner_r" ->
            /\ total' = total + r.n /\ lastResp' = r.resp
            /\ sawBlock' = (sawBlock \/ r.resp = "wouldblock") /\ sawEof' = (sawEof \/ r.resp = "eof")
            /\ UNCHANGED <<scen, shape, vec, isRead, nonblock, before, nviol, inCall, wWaits, readerIn>>
       [] ev = "call_e" ->
            LET sum == SumSeq(shape)
                b1 == total > 0 /\ r.ret # total /\ r.ret # -1
                b2 == (total > 0 /\ r.ret = -1) \/ (total = 0 /\ r.ret > 0)
                b3 == sum = 0 /\ r.ret # 0
                \* nothing moved: 0 is right only for end of stream / a zero-length request
                b4 == sum > 0 /\ total = 0 /\ r.ret = 0 /\ ~sawEof
                b5 == sum > 0 /\ total = 0 /\ r.ret = -1 /\
                      ~( (lastResp \in {"err", "extra"} /\ r.errno = ECONNRESET)
                         \/ (lastResp = "wouldblock" /\ r.errno = EAGAIN)
                         \/ (lastResp = "intr" /\ r.errno \in {EINTR, EAGAIN}) )
                b6 == IF isRead THEN Concat(r.bufs) # Expected(shape, total) ELSE ~PrefixOK(r.sent, total)
                \* (while the reader of a duplex scenario is still in its call the descriptor may be forced non-blocking)
                b7 == ~readerIn /\ r.fl_nonblock # nonblock
                \* the caller left the descriptor blocking, the kernel said "would block", and the call came back
                \* with that answer without having waited even once
                b8 == ~nonblock /\ lastResp = "wouldblock" /\ wWaits = 0
            IN /\ (b1 => Viol("ret_total", <<r.ret, total>>))
               /\ (b2 => Viol("ret_minus1", <<r.ret, total>>))
               /\ (b3 => Viol("zero_len", <<r.ret>>))
               /\ (b4 => Viol("ret_total", <<r.ret, total, "no eof">>))
               /\ (b5 => Viol("errno", <<r.errno, lastResp>>))
               /\ (b6 => Viol("placement", <<total, IF isRead THEN Concat(r.bufs) ELSE r.sent>>))
               /\ (b7 => Viol("mode_changed", <<before, r.fl_nonblock>>))
               /\ (b8 => Viol("blocking_eagain_at_once", <<r.ret, r.errno>>))
               /\ nviol' = nviol + Count(b1) + Count(b2) + Count(b3) + Count(b4) + Count(b5) + Count(b6) + Count(b7) + Count(b8)
               /\ inCall' = FALSE
               /\ UNCHANGED <<scen, shape, vec, isRead, nonblock, before, total, lastResp, sawBlock, sawEof, wWaits, readerIn>>
       [] ev = "died" -> /\ Viol(r.how, r.msg) /\ nviol' = nviol + 1
                         /\ UNCHANGED <<scen, shape, vec, isRead, nonblock, before, total, lastResp, sawBlock, sawEof, inCall, wWaits, readerIn>>
       \* (duplex scenarios) the descriptor is closed under the parked reader: NioShared!CloseFd
       [] ev \in {"close_b", "close_e"} -> UNCHANGED vars2
       [] ev = "nend" -> UNCHANGED vars2
Spec == Init /\ [][Step]_vars
Accepted == /\ PrintT(<<"ACCEPT", TLCGet("stats").diameter - 1, N>>)
            /\ TLCGet("stats").diameter - 1 = N
=============================================================================
