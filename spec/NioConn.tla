------------------------------- MODULE NioConn -------------------------------
(* Design model of the hooked calls that establish connections (property C18,  *)
(* the part of it that NioSyscall.tla does not reach):                          *)
(*   core/src/syscall/unix/connect.rs  NioConnectSyscall::connect               *)
(*   core/src/syscall/unix/mod.rs      impl_nio_read!  (accept, accept4)        *)
(* One call: the mode the caller gave the descriptor, the forced O_NONBLOCK     *)
(* around the kernel call, the kernel's answers, the wait for readiness (with   *)
(* the descriptor's time limit), for connect the look at the outcome            *)
(* (getpeername + SO_ERROR), and what is returned and left behind.              *)
(*                                                                              *)
(* Intended design (Deviations = {}): the kernel is only ever asked on a        *)
(* non-blocking descriptor (the thread is never parked inside the kernel), a    *)
(* descriptor the caller made non-blocking is never waited on - the kernel's    *)
(* "not yet" (EINPROGRESS for connect, EAGAIN for accept) goes straight back -  *)
(* and the descriptor's mode is the caller's again when the call returns.       *)
(* Named deviations:                                                            *)
(*  "nonblock_waits"     the code before this round's fix: the retry loop waits *)
(*                       for readiness whatever mode the caller chose           *)
(*  "mode_not_restored"  a failing call leaves the descriptor non-blocking      *)
(*  "asks_blocking"      the kernel is asked while the descriptor still blocks  *)
EXTENDS Naturals, Integers, Sequences, TLC, Json

CONSTANTS MaxCalls,    \* bound on kernel calls per request (accept retries)
          Deviations
Dev(d) == d \in Deviations

EINTR == 4
EAGAIN == 11
ECONNABORTED == 103
ECONNREFUSED == 111
EINPROGRESS == 115
NEWFD == 777             \* what a successful accept returns

VARIABLES call,      \* "connect" | "accept"
          nonblock,  \* the mode the caller gave the descriptor
          limited,   \* the descriptor has a send / receive time limit
          fdnb,      \* the descriptor's O_NONBLOCK flag right now
          pc,        \* "start" | "call" | "resp" | "wait" | "probe" | "done"
          ret, errno, ncalls,
          waited,    \* the call waited for readiness at least once
          askedBlk,  \* the kernel was asked while the descriptor was blocking
          arrived,   \* (accept) a connection has arrived: the listener stays readable
          script
vars == <<call, nonblock, limited, fdnb, pc, ret, errno, ncalls, waited, askedBlk, arrived, script>>

PendErr == IF call = "connect" THEN EINPROGRESS ELSE EAGAIN
HardErr == IF call = "connect" THEN ECONNREFUSED ELSE ECONNABORTED

Init ==
  /\ call \in {"connect", "accept"} /\ nonblock \in BOOLEAN /\ limited \in BOOLEAN
  /\ fdnb = nonblock /\ pc = "start" /\ ret = 0 /\ errno = 0 /\ ncalls = 0
  /\ waited = FALSE /\ askedBlk = FALSE /\ arrived = FALSE /\ script = <<>>

\* remember the caller's mode, force O_NONBLOCK
Enter ==
  /\ pc = "start" /\ pc' = "call"
  /\ fdnb' = IF Dev("asks_blocking") THEN fdnb ELSE TRUE
  /\ UNCHANGED <<call, nonblock, limited, ret, errno, ncalls, waited, askedBlk, arrived, script>>

\* the kernel is asked (connect: once; accept: again after every wait and interruption)
Call ==
  /\ pc = "call" /\ ncalls < (IF call = "connect" THEN 1 ELSE MaxCalls)
  /\ ncalls' = ncalls + 1 /\ askedBlk' = (askedBlk \/ ~fdnb) /\ pc' = "resp"
  /\ UNCHANGED <<call, nonblock, limited, fdnb, ret, errno, waited, arrived, script>>

\* restore the caller's mode and return
Finish(r, e) ==
  /\ pc' = "done" /\ ret' = r /\ errno' = e
  /\ fdnb' = IF Dev("mode_not_restored") /\ r = -1 THEN fdnb ELSE nonblock

Resp(kind) ==
  /\ pc = "resp"
  /\ script' = Append(script, [k |-> kind])
  /\ CASE kind = "ok" -> Finish(IF call = "connect" THEN 0 ELSE NEWFD, 0) /\ UNCHANGED waited
       [] kind = "err" -> Finish(-1, HardErr) /\ UNCHANGED waited
       [] kind = "intr" -> /\ call = "accept" /\ pc' = "call" /\ UNCHANGED <<ret, errno, fdnb, waited>>
       [] kind = "pending" ->
            IF nonblock /\ ~Dev("nonblock_waits")
            THEN Finish(-1, PendErr) /\ UNCHANGED waited
            ELSE pc' = "wait" /\ waited' = TRUE /\ UNCHANGED <<ret, errno, fdnb>>
  /\ UNCHANGED <<call, nonblock, limited, ncalls, askedBlk, arrived>>

\* the wait ends because the descriptor is ready ...
WaitReady ==
  /\ pc = "wait"
  /\ pc' = IF call = "connect" THEN "probe" ELSE "call"
  /\ arrived' = TRUE
  /\ script' = IF arrived THEN script ELSE Append(script, [k |-> "ready"])
  /\ UNCHANGED <<call, nonblock, limited, fdnb, ret, errno, ncalls, waited, askedBlk>>
\* ... or because a wait slice (10 ms) is over: the hook looks again all the same
WaitSlice ==
  /\ pc = "wait" /\ pc' = IF call = "connect" THEN "probe" ELSE "call"
  /\ UNCHANGED <<call, nonblock, limited, fdnb, ret, errno, ncalls, waited, askedBlk, arrived, script>>
\* ... or because the time limit has passed (a listener that has a connection waiting stays readable)
WaitTimeout ==
  /\ pc = "wait" /\ limited /\ ~arrived
  /\ Finish(-1, PendErr) /\ script' = Append(script, [k |-> "timeout"])
  /\ UNCHANGED <<call, nonblock, limited, ncalls, waited, askedBlk, arrived>>
\* connect looks at what became of the connection
Probe(kind) ==
  /\ pc = "probe"
  /\ CASE kind = "connected" -> Finish(0, 0) /\ script' = Append(script, [k |-> kind])
       [] kind = "failed" -> Finish(-1, ECONNREFUSED) /\ script' = Append(script, [k |-> kind])
       \* neither yet: wait on
       [] kind = "still" -> pc' = "wait" /\ UNCHANGED <<ret, errno, fdnb, script>>
  /\ UNCHANGED <<call, nonblock, limited, ncalls, waited, askedBlk, arrived>>

Next == Enter \/ Call \/ WaitReady \/ WaitSlice \/ WaitTimeout
        \/ \E rk \in {"ok", "err", "intr", "pending"} : Resp(rk)
        \/ \E pk \in {"connected", "failed", "still"} : Probe(pk)
Spec == Init /\ [][Next]_vars

------------------------------------------------------------------------------
\* C18: a descriptor the caller made non-blocking is never waited on ...
NonblockNeverWaits == nonblock => ~waited
\* ... and every call leaves the mode as the caller set it
ModeRestored == pc = "done" => fdnb = nonblock
\* the kernel is never asked on a blocking descriptor (it would park the whole thread)
NeverAsksBlocking == ~askedBlk
ReturnOK == pc = "done" => /\ (ret = -1) = (errno # 0)
                           /\ (nonblock /\ ret = -1 /\ errno = PendErr => ~waited)
DumpScript == pc = "done" => PrintT(<<"REPLAY", ToJson([call |-> call, nonblock |-> nonblock, limited |-> limited, script |-> script])>>)
=============================================================================
