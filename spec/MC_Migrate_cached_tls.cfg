SPECIFICATION Spec
CONSTANTS
  Threads = {"t1", "t2"}
  Co = {1, 2, 3}
  MaxSusp = 2
  Deviations = {"cached_tls"}
INVARIANTS NoViolation CurrentExact BodyFindsOwn TypeOK
PROPERTY AllDone
CHECK_DEADLOCK FALSE
