SPECIFICATION Spec
CONSTANTS
  Cap = 8
  Deviations = {"break_only_if_nothing_moved"}
INVARIANTS TypeOK Bounded
PROPERTIES Terminates
CHECK_DEADLOCK FALSE
