SPECIFICATION Spec
CONSTANTS
  NLoops = 2
  NSubs = 2
  PerSub = 2
  Deviations = {}
INVARIANTS AtMostOnce NoneLost JoinFinds
CHECK_DEADLOCK FALSE
