----------------------------- MODULE Trace_Monitor -----------------------------
(* Observable layer of property C22 (harness/src/bin/preempt.rs, built with the *)
(* preemptive feature).  Per scheduling thread: a busy coroutine (co 1) that     *)
(* computes for about 45 ms without yielding - in the Running state or inside a  *)
(* syscall state - and a quick coroutine (co 2) that is ready behind it; many    *)
(* short coroutines in the stress scenarios.  Schedulers steal from each other,  *)
(* so `own` is the thread that created a coroutine and `on` the scheduling       *)
(* thread that executes the recorded step.                                       *)
(*                                                                               *)
(* The clauses are order-based (they follow Monitor.tla's actions Scan, the      *)
(* signal in flight and Deliver), so that a machine too busy to schedule the     *)
(* monitor thread cannot make them fire:                                         *)
(*   monitor_skipped    Monitor!Scan: a scan that began after the busy           *)
(*                      coroutine's node was in the set and ran its expiry test  *)
(*                      more than a slice (10 ms + 1 ms) after the node was made *)
(*                      did not signal the coroutine's thread although the       *)
(*                      coroutine kept running until the following scan          *)
(*   never_signalled    any Running period of a busy coroutine (also after it was *)
(*                      stolen by another thread): the monitor completed three   *)
(*                      or more scans later than 25 ms into the period and sent  *)
(*                      no signal to the thread the coroutine runs on            *)
(*   signal_ignored     Monitor!Deliver: the monitor signalled the thread on     *)
(*                      which the busy coroutine was computing in the Running    *)
(*                      state - the coroutine's state did not change between the *)
(*                      records made just before and just after the kill, and    *)
(*                      its computation had not ended - yet the coroutine        *)
(*                      finished without being suspended afterwards              *)
(*   sibling_not_run    one scheduling thread: the busy coroutine was suspended  *)
(*                      but the quick one behind it had not run when the busy    *)
(*                      one finished                                             *)
(*   monitor_dead       a Running busy coroutine computed >= 30 ms unsuspended   *)
(*                      and the monitor made no scan at all in a scenario that   *)
(*                      lasted >= 300 ms (timing clause; 2-of-3 rule in python)  *)
(*   syscall_preempted  Monitor!SyscallNeverPreempted: the busy coroutine was    *)
(*                      suspended while inside its syscall state, or a SIGURG    *)
(*                      delivered to its thread while it was in the syscall      *)
(*                      state (sys_sig_b) switched it out: the statement after   *)
(*                      the signal (sys_sig_e) was never reached                 *)
(*   result_changed     a preempted computation returned a different result      *)
(*   co_error           a busy or quick coroutine, which never panics, ended in  *)
(*                      the Error state                                          *)
(*   unfinished         a thread did not see every coroutine finish              *)
(*   abort / hang / panic   the process died                                     *)
EXTENDS Naturals, Integers, Sequences, FiniteSets, TLC, Json, IOUtils
Rec == ndJsonDeserialize(IOEnv.TRACE)
N == Len(Rec)
SliceUs == 11000

VARIABLES l, scen, busyKind, nthreads, nviol,
          inBusy,     \* busy coroutines (by creator) between their busy_b and busy_e records
          quickSeen,  \* creators whose quick coroutine has run
          suspended,  \* busy coroutines suspended at least once during their computation
          first,      \* [own -> [t, on]] first Running period of a busy coroutine in progress (running kind)
          runOn,      \* [own -> on] busy coroutines currently in the Running state, and where
          period,     \* [own -> [t, late, nsig]] the Running period in progress: its start, the scans completed later
                      \* than 25 ms into it, the signals sent to its thread
          armed,      \* busy coroutines computing in the Running state on a thread the monitor is about to signal
          owed,       \* busy coroutines whose thread was signalled while they computed in the Running state
          s1, s2,     \* record times of the last two scans (0 = none)
          sigs,       \* threads signalled since the last scan
          nscan, t0, longBusy, sysPend
vars == <<l, scen, busyKind, nthreads, nviol, inBusy, quickSeen, suspended, first, runOn, period, armed, owed, s1, s2, sigs, nscan, t0, longBusy, sysPend>>

Init == /\ l = 1 /\ scen = 0 /\ busyKind = "" /\ nthreads = 0 /\ nviol = 0
        /\ inBusy = {} /\ quickSeen = {} /\ suspended = {} /\ first = <<>> /\ runOn = <<>> /\ period = <<>> /\ armed = {} /\ owed = {}
        /\ s1 = 0 /\ s2 = 0 /\ sigs = {} /\ nscan = 0 /\ t0 = 0 /\ longBusy = FALSE /\ sysPend = {}
Viol(clause, detail) == PrintT(<<"VIOL", l, clause, scen, detail>>)
Count(b) == IF b THEN 1 ELSE 0
Has(f, k) == k \in DOMAIN f
Drop(f, k) == [x \in (DOMAIN f) \ {k} |-> f[x]]
Put(f, k, v) == (k :> v) @@ f

Step ==
  /\ l <= N /\ l' = l + 1
  /\ LET r == Rec[l] ev == r.ev IN
     CASE ev = "mreset" ->
            /\ scen' = r.scenario /\ busyKind' = r.busy /\ nthreads' = r.threads
            /\ inBusy' = {} /\ quickSeen' = {} /\ suspended' = {} /\ first' = <<>> /\ runOn' = <<>> /\ period' = <<>> /\ armed' = {} /\ owed' = {}
            /\ s1' = 0 /\ s2' = 0 /\ sigs' = {} /\ nscan' = 0 /\ t0' = r.t /\ longBusy' = FALSE /\ sysPend' = {}
            /\ UNCHANGED nviol
       [] ev = "busy_b" ->
            /\ inBusy' = inBusy \cup {r.own}
            /\ first' = IF busyKind = "running" THEN Put(first, r.own, [t |-> r.t, on |-> r.on]) ELSE first
            /\ UNCHANGED <<scen, busyKind, nthreads, nviol, quickSeen, suspended, runOn, period, armed, owed, s1, s2, sigs, nscan, t0, longBusy, sysPend>>
       [] ev = "quick" ->
            /\ quickSeen' = quickSeen \cup {r.own}
            /\ UNCHANGED <<scen, busyKind, nthreads, nviol, inBusy, suspended, first, runOn, period, armed, owed, s1, s2, sigs, nscan, t0, longBusy, sysPend>>
       [] ev = "busy_e" ->
            LET b1 == nthreads = 1 /\ r.own \in suspended /\ r.own \notin quickSeen
                b2 == ~r.ok
            IN /\ (b1 => Viol("sibling_not_run", r.own))
               /\ (b2 => Viol("result_changed", r.own))
               /\ nviol' = nviol + Count(b1) + Count(b2) /\ inBusy' = inBusy \ {r.own}
               /\ longBusy' = (longBusy \/ (busyKind = "running" /\ r.ms >= 30 /\ r.own \notin suspended))
               /\ armed' = armed \ {r.own}
               /\ UNCHANGED <<scen, busyKind, nthreads, quickSeen, suspended, first, runOn, period, owed, s1, s2, sigs, nscan, t0, sysPend>>
       [] ev = "mon_scan" ->
            \* the scan before this one (record time s2) is now complete: judge it
            LET late == {b \in DOMAIN first : s1 >= first[b].t /\ s2 >= first[b].t + SliceUs /\ first[b].on \notin sigs}
            IN /\ (late # {} => Viol("monitor_skipped", late))
               /\ nviol' = nviol + Count(late # {})
               /\ s1' = s2 /\ s2' = r.t /\ sigs' = {} /\ nscan' = nscan + 1
               \* the scan before this one is complete: it counts for every period it ended later than 25 ms into
               /\ period' = [b \in DOMAIN period |-> IF s2 >= period[b].t + 25000 THEN [period[b] EXCEPT !.late = @ + 1] ELSE period[b]]
               /\ UNCHANGED <<scen, busyKind, nthreads, inBusy, quickSeen, suspended, first, runOn, armed, owed, t0, longBusy, sysPend>>
       [] ev = "mon_sig_b" ->
            /\ armed' = armed \cup {b \in DOMAIN runOn : runOn[b] = r.own /\ b \in inBusy /\ busyKind = "running"}
            /\ UNCHANGED <<scen, busyKind, nthreads, nviol, inBusy, quickSeen, suspended, first, runOn, period, owed, s1, s2, sigs, nscan, t0, longBusy, sysPend>>
       [] ev = "mon_sig" ->
            \* the kill lies between the mon_sig_b record and this one
            LET hit == {b \in armed : Has(runOn, b) /\ runOn[b] = r.own} IN
            /\ sigs' = sigs \cup {r.own}
            /\ owed' = owed \cup hit /\ armed' = armed \ hit
            /\ period' = [b \in DOMAIN period |-> IF Has(runOn, b) /\ runOn[b] = r.own THEN [period[b] EXCEPT !.nsig = @ + 1] ELSE period[b]]
            /\ UNCHANGED <<scen, busyKind, nthreads, nviol, inBusy, quickSeen, suspended, first, runOn, s1, s2, nscan, t0, longBusy, sysPend>>
       [] ev = "chg" ->
            LET busy == r.co = 1
                b == r.own
                bad == busyKind = "syscall" /\ busy /\ b \in inBusy /\ r.new = "Suspend"
                err == r.new = "Error"
                ign == busy /\ r.new \in {"Complete", "Error"} /\ b \in owed
                nev == busy /\ busyKind = "running" /\ Has(period, b) /\ period[b].late >= 3 /\ period[b].nsig = 0
            IN /\ (bad => Viol("syscall_preempted", b))
               /\ (nev => Viol("never_signalled", <<b, period[b]>>))
               /\ (err => Viol("co_error", <<b, r.co, r.msg>>))
               /\ (ign => Viol("signal_ignored", b))
               /\ nviol' = nviol + Count(bad) + Count(err) + Count(ign) + Count(nev)
               /\ period' = IF ~busy THEN period ELSE IF r.new = "Running" THEN Put(period, b, [t |-> r.t, late |-> 0, nsig |-> 0]) ELSE Drop(period, b)
               /\ suspended' = IF busy /\ b \in inBusy /\ r.new = "Suspend" THEN suspended \cup {b} ELSE suspended
               /\ runOn' = IF ~busy THEN runOn ELSE IF r.new = "Running" THEN Put(runOn, b, r.on) ELSE Drop(runOn, b)
               /\ first' = IF busy /\ Has(first, b) THEN Drop(first, b) ELSE first
               /\ owed' = IF busy /\ r.new # "Running" THEN owed \ {b} ELSE owed
               /\ armed' = IF busy THEN armed \ {b} ELSE armed
               /\ UNCHANGED <<scen, busyKind, nthreads, inBusy, quickSeen, s1, s2, sigs, nscan, t0, longBusy, sysPend>>
       [] ev = "storm_done" ->
            UNCHANGED <<scen, busyKind, nthreads, nviol, inBusy, quickSeen, suspended, first, runOn, period, armed, owed, s1, s2, sigs, nscan, t0, longBusy, sysPend>>
       [] ev = "sys_sig_b" ->
            /\ sysPend' = sysPend \cup {r.own}
            /\ UNCHANGED <<scen, busyKind, nthreads, nviol, inBusy, quickSeen, suspended, first, runOn, period, armed, owed, s1, s2, sigs, nscan, t0, longBusy>>
       [] ev = "sys_sig_e" ->
            /\ sysPend' = sysPend \ {r.own}
            /\ UNCHANGED <<scen, busyKind, nthreads, nviol, inBusy, quickSeen, suspended, first, runOn, period, armed, owed, s1, s2, sigs, nscan, t0, longBusy>>
       [] ev = "thread_done" ->
            LET bad == r.all < r.want IN
            /\ (bad => Viol("unfinished", <<r.th, r.all, r.want>>))
            /\ nviol' = nviol + Count(bad)
            /\ UNCHANGED <<scen, busyKind, nthreads, inBusy, quickSeen, suspended, first, runOn, period, armed, owed, s1, s2, sigs, nscan, t0, longBusy, sysPend>>
       [] ev = "died" ->
            /\ Viol(r.how, r.msg) /\ nviol' = nviol + 1
            /\ UNCHANGED <<scen, busyKind, nthreads, inBusy, quickSeen, suspended, first, runOn, period, armed, owed, s1, s2, sigs, nscan, t0, longBusy, sysPend>>
       \* (property C08) a coroutine with a typed resume argument or yield value ran for several slices: what its
       \* resumer saw must be exactly what the body yielded and returned - the preemption handler leaves it alone
       [] ev = "typed" ->
            LET bad == r.got # r.want IN
            /\ (bad => Viol("values_corrupted", <<r.kind, r.got, r.want>>))
            /\ nviol' = nviol + Count(bad)
            /\ UNCHANGED <<scen, busyKind, nthreads, inBusy, quickSeen, suspended, first, runOn, period, armed, owed, s1, s2, sigs, nscan, t0, longBusy, sysPend>>
       [] ev = "mend" ->
            LET dead == longBusy /\ nscan = 0 /\ "t" \in DOMAIN r /\ r.t - t0 >= 300000 IN
            /\ (dead => Viol("monitor_dead", r.t - t0))
            /\ (sysPend # {} => Viol("syscall_preempted", sysPend))
            /\ PrintT(<<"STAT", scen, nscan>>)
            /\ nviol' = nviol + Count(dead) + Count(sysPend # {})
            /\ UNCHANGED <<scen, busyKind, nthreads, inBusy, quickSeen, suspended, first, runOn, period, armed, owed, s1, s2, sigs, nscan, t0, longBusy, sysPend>>
Spec == Init /\ [][Step]_vars
Accepted == /\ PrintT(<<"ACCEPT", TLCGet("stats").diameter - 1, N>>)
            /\ TLCGet("stats").diameter - 1 = N
=============================================================================
