----------------------------- MODULE Trace_Monitor -----------------------------
(* Observable layer of property C22 (harness/src/bin/preempt.rs, built with the *)
(* preemptive feature).  Per scheduling thread: a busy coroutine (co 1) that     *)
(* computes for about 45 ms without yielding - in the Running state or inside a  *)
(* syscall state - and a quick coroutine (co 2) that is ready behind it.         *)
(*   not_preempted      the busy Running coroutine finished its whole            *)
(*                      computation (>= 30 ms) before the quick one ever ran     *)
(*   syscall_preempted  the busy coroutine was suspended while in its syscall    *)
(*                      state                                                    *)
(*   result_changed     a preempted computation returned a different result      *)
(*   co_error           a busy or quick coroutine, which never panics, ended in  *)
(*                      the Error state                                          *)
(*   unfinished         a thread did not see every coroutine finish              *)
(*   abort / hang / panic   the process died                                     *)
EXTENDS Naturals, Integers, Sequences, FiniteSets, TLC, Json, IOUtils
Rec == ndJsonDeserialize(IOEnv.TRACE)
N == Len(Rec)
VARIABLES l, scen, busyKind, inBusy, quickSeen, suspended, nthreads, nviol
vars == <<l, scen, busyKind, inBusy, quickSeen, suspended, nthreads, nviol>>
Init == l = 1 /\ scen = 0 /\ busyKind = "" /\ inBusy = {} /\ quickSeen = {} /\ suspended = {} /\ nthreads = 0 /\ nviol = 0
Viol(clause, detail) == PrintT(<<"VIOL", l, clause, scen, detail>>)
Count(b) == IF b THEN 1 ELSE 0
Step ==
  /\ l <= N /\ l' = l + 1
  /\ LET r == Rec[l] ev == r.ev IN
     CASE ev = "mreset" -> /\ scen' = r.scenario /\ busyKind' = r.busy /\ inBusy' = {} /\ quickSeen' = {} /\ suspended' = {}
                           /\ nthreads' = r.threads /\ UNCHANGED nviol
       [] ev = "busy_b" -> inBusy' = inBusy \cup {r.own} /\ UNCHANGED <<scen, busyKind, quickSeen, suspended, nthreads, nviol>>
       [] ev = "quick" -> quickSeen' = quickSeen \cup {r.own} /\ UNCHANGED <<scen, busyKind, inBusy, suspended, nthreads, nviol>>
       [] ev = "busy_e" ->
            \* preempted = the busy coroutine itself was suspended at least once while computing (schedulers
            \* steal from each other, so which thread ran the quick coroutine says nothing when there are several)
            LET b1 == busyKind = "running" /\ r.ms >= 30 /\ (r.own \notin suspended \/ (nthreads = 1 /\ r.own \notin quickSeen))
                b2 == ~r.ok
            IN /\ (b1 => Viol("not_preempted", <<r.own, r.ms>>))
               /\ (b2 => Viol("result_changed", r.own))
               /\ nviol' = nviol + Count(b1) + Count(b2) /\ inBusy' = inBusy \ {r.own}
               /\ UNCHANGED <<scen, busyKind, quickSeen, suspended, nthreads>>
       [] ev = "chg" ->
            LET bad == busyKind = "syscall" /\ r.co = 1 /\ r.own \in inBusy /\ r.new = "Suspend"
                err == r.new = "Error" IN
            /\ (bad => Viol("syscall_preempted", r.own))
            /\ (err => Viol("co_error", <<r.own, r.co, r.msg>>))
            /\ nviol' = nviol + Count(bad) + Count(err)
            /\ suspended' = IF r.co = 1 /\ r.own \in inBusy /\ r.new = "Suspend" THEN suspended \cup {r.own} ELSE suspended
            /\ UNCHANGED <<scen, busyKind, inBusy, quickSeen, nthreads>>
       [] ev = "thread_done" ->
            LET bad == r.all < r.want IN
            /\ (bad => Viol("unfinished", <<r.own, r.all, r.want>>))
            /\ nviol' = nviol + Count(bad) /\ UNCHANGED <<scen, busyKind, inBusy, quickSeen, suspended, nthreads>>
       [] ev = "died" -> Viol(r.how, r.msg) /\ nviol' = nviol + 1 /\ UNCHANGED <<scen, busyKind, inBusy, quickSeen, suspended, nthreads>>
       [] ev = "mend" -> UNCHANGED <<scen, busyKind, inBusy, quickSeen, suspended, nthreads, nviol>>
Spec == Init /\ [][Step]_vars
Accepted == /\ PrintT(<<"ACCEPT", TLCGet("stats").diameter - 1, N>>)
            /\ TLCGet("stats").diameter - 1 = N
=============================================================================
