------------------------------ MODULE Coroutine ------------------------------
(* Design model of the coroutine lifecycle of open-coroutine                 *)
(*   core/src/coroutine/{mod,korosensei,state,suspender}.rs                  *)
(* for K coroutines that are resumed by one thread (properties C07, C08,     *)
(* C09; the per-thread "current" stack).  A coroutine body is a *program*:   *)
(* its next step is chosen nondeterministically, so TLC's behaviours are all *)
(* programs up to the bound, each paired with every resume order.            *)
(*                                                                           *)
(* One `resume_with` call = Resume(c) followed by the body steps of c until  *)
(* it yields, returns, panics or cancels; `active` is the running coroutine. *)
(* The two thread-local request stacks of suspender.rs (TIMESTAMP, CANCEL)   *)
(* are modelled as the code has them: `until_with` / `cancel` push at the    *)
(* front, `raw_resume` pops at the front.                                    *)
(*                                                                           *)
(* Named deviations:                                                         *)
(*   "request_stack_leak"  a yield made in a Syscall state does not consume  *)
(*                         the requests it pushed (code before the fix)      *)
(*   "current_leak"        a refused resume returns before `clean_current`   *)
EXTENDS CoObs, FiniteSets, TLC, Json

CONSTANTS K,           \* number of coroutines
          MaxSteps,    \* body steps per coroutine
          MaxResumes,  \* resume calls in total
          Deviations

Co == 1..K
TsClasses == {1, 2, 3}          \* classes a delay can request (0 is a plain suspend)
SysNames == {"sleep", "recv"}

VARIABLES st,        \* [Co -> state]
          started,   \* [Co -> BOOLEAN] body entered
          steps,     \* [Co -> Nat] body steps taken
          dead,      \* [Co -> BOOLEAN] abandoned by the driver (cancel inside a syscall)
          active,    \* 0 or the coroutine inside resume_with
          tsStack, cancelStack,   \* thread-local request stacks
          curStack,  \* thread-local "current coroutine" stack
          req,       \* request of the yield in progress: [ts, cancel]
          nres,      \* resume calls so far
          nxt,       \* fresh value source (payloads)
          inbox,     \* [Co -> value passed by the resume in progress]
          viol,
          hist

vars == <<st, started, steps, dead, active, tsStack, cancelStack, curStack, req, nres, nxt, inbox, viol, hist>>
view == <<st, started, steps, dead, active, tsStack, cancelStack, curStack, req, nres, inbox, viol>>

Leak == "request_stack_leak" \in Deviations
CurLeak == "current_leak" \in Deviations

Init ==
  /\ st = [c \in Co |-> Ready] /\ started = [c \in Co |-> FALSE] /\ steps = [c \in Co |-> 0]
  /\ dead = [c \in Co |-> FALSE]
  /\ active = 0 /\ tsStack = <<>> /\ cancelStack = <<>> /\ curStack = <<>>
  /\ req = [ts |-> 0, cancel |-> FALSE]
  /\ nres = 0 /\ nxt = 1 /\ inbox = [c \in Co |-> 0] /\ viol = "none" /\ hist = <<>>

Log(e) == hist' = Append(hist, e)
Go == viol = "none"

------------------------------------------------------------------------------
(* resume_with *)
Resume(c) ==
  /\ Go /\ active = 0 /\ nres < MaxResumes /\ ~dead[c]
  /\ nres' = nres + 1 /\ nxt' = nxt + 1
  /\ Log([a |-> "resume", c |-> c, arg |-> nxt])
  /\ LET s == st[c] IN
     IF s.k \in {"Complete", "Error"}
     THEN UNCHANGED <<st, started, steps, dead, active, tsStack, cancelStack, curStack, req, inbox, viol>>
     ELSE
       LET ok == \/ s.k \in {"Ready", "Running"}
                 \/ s.k = "Suspend" /\ Due(s.ts)
                 \/ s.k = "Syscall" /\ s.sub \in {"Executing", "Callback", "Timeout"}
           change == s.k \in {"Ready", "Suspend"} \/ (s.k = "Syscall" /\ s.sub = "Executing")
       IN IF ~ok
          THEN \* refused: Err is returned
               /\ curStack' = IF CurLeak THEN <<c>> \o curStack ELSE curStack
               /\ UNCHANGED <<st, started, steps, dead, active, tsStack, cancelStack, req, inbox, viol>>
          ELSE /\ st' = IF change THEN [st EXCEPT ![c] = Running] ELSE st
               /\ viol' = IF change /\ ~EdgeOK(s, Running) THEN "edge" ELSE viol
               /\ active' = c /\ curStack' = <<c>> \o curStack
               /\ inbox' = [inbox EXCEPT ![c] = nxt]
               /\ started' = [started EXCEPT ![c] = TRUE]
               /\ UNCHANGED <<steps, dead, tsStack, cancelStack, req>>

\* leaving resume_with: clean_current
Leave == /\ active' = 0 /\ curStack' = Tail(curStack)

Body(c) == Go /\ active = c /\ steps[c] < MaxSteps
Stepped(c) == steps' = [steps EXCEPT ![c] = @ + 1]

BSuspend(c) ==
  /\ Body(c) /\ st[c].k \in {"Running", "Syscall"}
  /\ req' = [ts |-> 0, cancel |-> FALSE]
  /\ Log([a |-> "suspend", c |-> c, v |-> nxt])
  /\ nxt' = nxt + 1 /\ Stepped(c) /\ Leave
  /\ UNCHANGED <<started, dead, nres, inbox>>
  /\ LET s == st[c] IN
     IF s.k = "Running"
     THEN LET cflag == IF cancelStack = <<>> THEN FALSE ELSE Head(cancelStack)
              cs2 == IF cancelStack = <<>> THEN <<>> ELSE Tail(cancelStack)
          IN IF cflag
             THEN /\ st' = [st EXCEPT ![c] = Cancelled] /\ cancelStack' = cs2 /\ UNCHANGED tsStack
                  /\ viol' = "foreign_cancel"
             ELSE LET ts == IF tsStack = <<>> THEN 0 ELSE Head(tsStack)
                      t2 == IF tsStack = <<>> THEN <<>> ELSE Tail(tsStack)
                  IN /\ st' = [st EXCEPT ![c] = Suspend(nxt, ts)]
                     /\ cancelStack' = cs2 /\ tsStack' = t2
                     /\ viol' = IF ts # 0 THEN "foreign_timestamp" ELSE viol
     ELSE /\ UNCHANGED <<st, viol>>
          /\ IF Leak THEN UNCHANGED <<tsStack, cancelStack>>
             ELSE /\ tsStack' = IF tsStack = <<>> THEN <<>> ELSE Tail(tsStack)
                  /\ cancelStack' = IF cancelStack = <<>> THEN <<>> ELSE Tail(cancelStack)

BDelay(c, t) ==
  /\ Body(c) /\ st[c].k \in {"Running", "Syscall"}
  /\ req' = [ts |-> t, cancel |-> FALSE]
  /\ Log([a |-> "delay", c |-> c, v |-> nxt, ts |-> t])
  /\ nxt' = nxt + 1 /\ Stepped(c) /\ Leave
  /\ UNCHANGED <<started, dead, nres, inbox>>
  /\ LET s == st[c]
         tsS == <<t>> \o tsStack        \* until_with pushes first
     IN IF s.k = "Running"
        THEN LET cflag == IF cancelStack = <<>> THEN FALSE ELSE Head(cancelStack)
                 cs2 == IF cancelStack = <<>> THEN <<>> ELSE Tail(cancelStack)
             IN IF cflag
                THEN /\ st' = [st EXCEPT ![c] = Cancelled] /\ cancelStack' = cs2 /\ tsStack' = tsS
                     /\ viol' = "foreign_cancel"
                ELSE /\ st' = [st EXCEPT ![c] = Suspend(nxt, Head(tsS))]
                     /\ cancelStack' = cs2 /\ tsStack' = Tail(tsS)
                     /\ UNCHANGED viol
        ELSE /\ UNCHANGED <<st, viol>>
             /\ IF Leak THEN tsStack' = tsS /\ UNCHANGED cancelStack
                ELSE /\ tsStack' = Tail(tsS)
                     /\ cancelStack' = IF cancelStack = <<>> THEN <<>> ELSE Tail(cancelStack)

BCancel(c) ==
  /\ Body(c) /\ st[c].k \in {"Running", "Syscall"}
  /\ req' = [ts |-> 0, cancel |-> TRUE]
  /\ Log([a |-> "cancel", c |-> c])
  /\ Stepped(c) /\ Leave
  /\ UNCHANGED <<started, nres, inbox, nxt>>
  /\ LET s == st[c]
         cS == <<TRUE>> \o cancelStack
     IN IF s.k = "Running"
        THEN /\ st' = [st EXCEPT ![c] = Cancelled]
             /\ cancelStack' = Tail(cS) /\ UNCHANGED <<tsStack, viol, dead>>
        ELSE \* cancel requested inside a syscall state (what the SIGVTALRM handler does):
             \* the coroutine stays in its Syscall state and is abandoned by the driver
             /\ UNCHANGED <<st, viol, tsStack>>
             /\ dead' = [dead EXCEPT ![c] = TRUE]
             /\ cancelStack' = IF Leak THEN cS ELSE Tail(cS)

BSysEnter(c, n) ==
  /\ Body(c) /\ st[c].k = "Running"
  /\ st' = [st EXCEPT ![c] = Syscall(0, n, "Executing", 0)]
  /\ Log([a |-> "sys_enter", c |-> c, n |-> n]) /\ Stepped(c)
  /\ UNCHANGED <<started, dead, active, tsStack, cancelStack, curStack, req, nres, nxt, inbox, viol>>

BSysSub(c, sub, sts) ==
  /\ Body(c) /\ st[c].k = "Syscall"
  /\ st' = [st EXCEPT ![c] = Syscall(0, st[c].n, sub, sts)]
  /\ Log([a |-> "sys_sub", c |-> c, sub |-> sub, sts |-> sts]) /\ Stepped(c)
  /\ UNCHANGED <<started, dead, active, tsStack, cancelStack, curStack, req, nres, nxt, inbox, viol>>

\* a syscall transition with another name is refused and changes nothing
BSysOther(c) ==
  /\ Body(c) /\ st[c].k = "Syscall"
  /\ Log([a |-> "sys_other", c |-> c]) /\ Stepped(c)
  /\ UNCHANGED <<st, started, dead, active, tsStack, cancelStack, curStack, req, nres, nxt, inbox, viol>>

\* Coroutine::running() called by the body (what the syscall facade does on exit)
BSysExit(c) ==
  /\ Body(c) /\ st[c].k = "Syscall"
  /\ st' = IF st[c].sub = "Executing" THEN [st EXCEPT ![c] = Running] ELSE st
  /\ Log([a |-> "sys_exit", c |-> c]) /\ Stepped(c)
  /\ UNCHANGED <<started, dead, active, tsStack, cancelStack, curStack, req, nres, nxt, inbox, viol>>

BReturn(c) ==
  /\ Body(c) /\ st[c].k = "Running"
  /\ st' = [st EXCEPT ![c] = Complete(nxt)]
  /\ Log([a |-> "return", c |-> c, r |-> nxt]) /\ nxt' = nxt + 1 /\ Stepped(c) /\ Leave
  /\ UNCHANGED <<started, dead, tsStack, cancelStack, req, nres, inbox, viol>>

BPanic(c, kind) ==
  /\ Body(c) /\ st[c].k = "Running"
  /\ st' = [st EXCEPT ![c] = Error(nxt)]
  /\ Log([a |-> "panic", c |-> c, m |-> nxt, kind |-> kind]) /\ nxt' = nxt + 1 /\ Stepped(c) /\ Leave
  /\ UNCHANGED <<started, dead, tsStack, cancelStack, req, nres, inbox, viol>>

\* a memory fault inside the body (property C24): the trap handler turns it into an error of
\* this coroutine only; 900001 = "invalid memory reference", 900002 = "stack overflow"
\* 900000 = either message: a real overflow faults in the guard page, which the segment records
\* may or may not include
FaultKinds == {"null_write", "wild_read", "foreign_stack", "overflow", "overflow_grown"}
FaultCode(kind) == IF kind \in {"overflow", "overflow_grown"} THEN 900000
                   ELSE IF kind = "foreign_stack" THEN 900002 ELSE 900001
BFault(c, kind) ==
  /\ Body(c) /\ st[c].k = "Running"
  /\ st' = [st EXCEPT ![c] = Error(FaultCode(kind))]
  /\ Log([a |-> "fault", c |-> c, kind |-> kind, m |-> FaultCode(kind)]) /\ Stepped(c) /\ Leave
  /\ UNCHANGED <<started, dead, tsStack, cancelStack, req, nres, nxt, inbox, viol>>

Next ==
  \E c \in Co :
    \/ Resume(c)
    \/ BSuspend(c) \/ (\E t \in TsClasses : BDelay(c, t)) \/ BCancel(c)
    \/ (\E n \in SysNames : BSysEnter(c, n))
    \/ (\E sub \in {"Executing", "Callback", "Timeout"} : BSysSub(c, sub, 0))
    \/ (\E t \in {1, 2} : BSysSub(c, "Suspend", t))
    \/ BSysOther(c) \/ BSysExit(c) \/ BReturn(c)
    \/ (\E kind \in {"str", "string"} : BPanic(c, kind))
    \/ (\E kind \in FaultKinds : BFault(c, kind))

Spec == Init /\ [][Next]_vars

------------------------------------------------------------------------------
\* C09: the wake-up time / cancellation reported for a yield is what it requested
NoViolation == viol = "none"
\* C09 (stronger, structural): no request survives the resume that made it
NoLeak == active = 0 => tsStack = <<>> /\ cancelStack = <<>>
\* the thread's current-coroutine stack is empty whenever no resume is in progress
CurrentDiscipline == active = 0 => curStack = <<>>
\* C07: terminal states are absorbing and a finished body takes no more steps
TerminalAbsorbing == \A c \in Co : Terminal(st[c]) => active # c
TypeOK == active \in 0..K /\ \A c \in Co : st[c].k \in {"Ready", "Running", "Suspend", "Syscall", "Cancelled", "Complete", "Error"}
\* C07 as an action property: every change of a coroutine's state is an edge of the documented graph
EdgesOK == [][\A c \in Co : st'[c] # st[c] => EdgeOK(st[c], st'[c])]_vars
\* terminal states never change
Absorbing == [][\A c \in Co : Terminal(st[c]) => st'[c] = st[c]]_vars

Finished == active = 0 /\ (nres = MaxResumes \/ \A c \in Co : Terminal(st[c]) \/ dead[c])
DumpHist == Finished => PrintT(<<"REPLAY", ToJson(hist)>>)
=============================================================================
