SPECIFICATION Spec
CONSTANTS
  K = 2
  MaxSteps = 3
  MaxResumes = 5
  Deviations = {"request_stack_leak"}
VIEW view
INVARIANTS TypeOK NoViolation NoLeak CurrentDiscipline TerminalAbsorbing
PROPERTIES EdgesOK Absorbing
CHECK_DEADLOCK FALSE
