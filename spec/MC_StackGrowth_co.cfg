SPECIFICATION Spec
CONSTANTS
  MaxDepth = 4
  MaxOps = 9
  Where = "co"
  Deviations = {}
VIEW view
INVARIANTS Consistent
CHECK_DEADLOCK FALSE
