SPECIFICATION Spec
CONSTANTS
  MaxDepth = 4
  MaxOps = 9
  Where = "thread"
  Deviations = {"thread_unwind_no_pop"}
VIEW view
INVARIANTS Consistent
CHECK_DEADLOCK FALSE
