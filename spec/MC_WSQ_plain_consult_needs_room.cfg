SPECIFICATION Spec
CONSTANTS
  NQ = 2
  Cap = 2
  Prios = {0}
  Period = 3
  MaxItems = 7
  MaxOps = 11
  Ordered = FALSE
  Deviations = {"consult_needs_room"}
VIEW view
INVARIANTS TypeOK Conserve LenExact NoViolation WorkerBound
CHECK_DEADLOCK FALSE
