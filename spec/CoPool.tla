-------------------------------- MODULE CoPool --------------------------------
(* Design model of core/src/co_pool (CoroutinePool) - properties C11 (worker   *)
(* count), C12 (lifecycle, stop), C13 (cancel) and the single-pool part of C02  *)
(* (join protocol).  Three kinds of threads:                                    *)
(*   the scheduling thread  passes of try_timeout_schedule_task: try_grow, pop  *)
(*                          a worker coroutine, the worker's loop (try_run: pop *)
(*                          task, cancel test, run, store result, notify), with *)
(*                          "store result" (R1) and "notify waiter" (R2) as two *)
(*                          steps                                               *)
(*   the API thread         submit_task, try_cancel_task, stop                  *)
(*   one waiter per task    wait_task_result: W1 try_take, W2 register,         *)
(*                          W3 block, W4 re-take                                *)
(* Task bodies are programs chosen step by step: suspend (yield the worker),    *)
(* finish (value or panic).                                                     *)
(*                                                                              *)
(* Named deviations (the code as it is; Deviations = {} is the intended design):*)
(*  "silent_cancel_drop"   a worker coroutine cancelled while it is suspended   *)
(*                         is dropped by the scheduler without any listener     *)
(*                         call: the running counter is not decremented and the *)
(*                         waiter of its task is never settled                  *)
(*  "timeout_without_last_look"  a waiter whose deadline passes between the     *)
(*                         worker's store and its notify reports a timeout      *)
(*                         without looking for the result once more             *)
(*  "join_no_recheck"      wait_task_result does not look for the result again  *)
(*                         after registering, so a completion between W1 and W2 *)
(*                         is lost until the timeout                            *)
(*  "cancel_skip_unsettled" a task cancelled before it starts is skipped        *)
(*                         without settling its waiter                          *)
(*  "stop_timeout_ok"      stop() reports success after its timeout although    *)
(*                         accepted tasks have not finished                     *)
(*  "keepalive_precedence" an idle worker leaves only when its keep-alive time  *)
(*                         has passed, also when the pool is being stopped      *)
(*                         (`expired && (running > min || recycle)` instead of  *)
(*                         `expired && running > min || recycle`): stop() waits *)
(*                         out its limit although all work is done (seeded/C11) *)
(*  "drop_undoes_cancel"   dropping a task's join handle (clean_task_result)    *)
(*                         before the task has finished removes its id from the *)
(*                         cancel set: a task cancelled while queued runs anyway*)
(*                         (code before 4c564b6; JoinHandle::try_cancel(self)   *)
(*                         drops the handle right after the cancel)             *)
(*  "abandoned_stays_running" a task whose handle was dropped stays registered  *)
(*                         as running on its worker after it has finished: a    *)
(*                         late cancel of it hits whatever that worker runs now *)
(*                         (seeded/C13)                                         *)
(*  "count_before_create" submit_co takes its slot in the running counter      *)
(*                         before the coroutine is created and does not give it *)
(*                         back when the creation fails (seeded/C15)            *)
(* KeepAlive = TRUE models a positive keep-alive time: whether an idle worker's *)
(* time has passed is then chosen freely at every look.                         *)
EXTENDS Naturals, Integers, Sequences, FiniteSets, TLC, Json

CONSTANTS NT,          \* tasks 1..NT
          NW,          \* worker coroutines that may ever be created
          Max, Min,    \* pool sizes
          MaxSusp,     \* suspends per task
          MaxOps,      \* bound on API-level operations (history length)
          Waiters,     \* subset of tasks that have a waiter thread
          KeepAlive,   \* BOOLEAN: the pool has a positive keep-alive time
          Deviations

T == 1..NT
W == 1..NW
Dev(d) == d \in Deviations

VARIABLES pstate,      \* "Running" | "Stopping" | "Stopped"
          tq,          \* queued tasks, arrival order
          tst,         \* [T -> "none" | "queued" | "cqueued" | "running" | "crunning" | "done" | "skipped" | "orphaned" | "rejected"]
                       \* ("cqueued" / "crunning": a cancel was requested while the task was queued / running)
          tw,          \* [T -> worker that runs it, 0]
          nsusp,       \* [T -> suspends so far]
          tres,        \* [T -> "none" | "stored" | "taken" | "stop_err" | "nowait" | "dropped"]
                       \* ("nowait": the join handle was dropped before the task ended; "dropped": ... and the task is over)
          cancelTasks, cancelCo, runningTasks,
          wst,         \* [W -> "none" | "ready" | "current" | "parked" | "done" | "dropped"]
          wtask,       \* [W -> task in progress, 0]
          rq,          \* ready worker coroutines (FIFO)
          ctr,         \* the pool's running counter
          spc,         \* scheduling thread: "idle" | "loop" | "in" | "notify"
          cur,         \* worker being resumed, 0
          stopping,    \* "no" | "begin" | "passes" | "quietpass" | "quietdone" | "done_ok" | "done_err"   (stop() on the
                       \* scheduling thread; "quietpass": a pass of do_stop that began with all work done or cancelled,
                       \* "quietdone": such a pass has run to its end)
          waits, pending,   \* registered waiters / their condition flag
          wpc,         \* [T -> waiter pc: "off" | "W1" | "W2" | "W3" | "W4" | "ok" | "err" | "timeout"]
          notified,    \* [T -> BOOLEAN] R2 ran for the task
          accepted, nops, viol, hist

vars == <<pstate, tq, tst, tw, nsusp, tres, cancelTasks, cancelCo, runningTasks, wst, wtask, rq, ctr, spc, cur,
          stopping, waits, pending, wpc, notified, accepted, nops, viol, hist>>
view == <<pstate, tq, tst, tw, nsusp, tres, cancelTasks, cancelCo, runningTasks, wst, wtask, rq, ctr, spc, cur,
          stopping, waits, pending, wpc, notified, accepted, nops, viol>>

Init ==
  /\ pstate = "Running" /\ tq = <<>> /\ tst = [t \in T |-> "none"] /\ tw = [t \in T |-> 0] /\ nsusp = [t \in T |-> 0]
  /\ tres = [t \in T |-> "none"] /\ cancelTasks = {} /\ cancelCo = {} /\ runningTasks = {}
  /\ wst = [w \in W |-> "none"] /\ wtask = [w \in W |-> 0] /\ rq = <<>> /\ ctr = 0 /\ spc = "idle" /\ cur = 0
  /\ stopping = "no" /\ waits = {} /\ pending = [t \in T |-> FALSE] /\ wpc = [t \in T |-> "off"]
  /\ notified = [t \in T |-> FALSE] /\ accepted = {} /\ nops = 0 /\ viol = "none" /\ hist = <<>>

Go == viol = "none"
Api == Go /\ nops < MaxOps
Log(e) == hist' = Append(hist, e) /\ nops' = nops + 1
NoLog == UNCHANGED <<hist, nops>>
BodyLog(step) == hist' = Append(hist, [a |-> "body", t |-> wtask[cur], step |-> step]) /\ UNCHANGED nops

QueuedSt == {"queued", "cqueued"}
RunningSt == {"running", "crunning"}
Unfin == QueuedSt \cup RunningSt
Alive == {w \in W : wst[w] \in {"ready", "current", "parked"}}
StopActive == {"begin", "passes", "quietpass", "quietdone"}
AllWorkDone == /\ \A t \in accepted : tst[t] \in {"done", "skipped", "orphaned"}
               /\ \A w \in W : wst[w] # "parked"
Expiry == IF KeepAlive THEN BOOLEAN ELSE {TRUE}
\* the worker loop's exit test when it found no task
IdleExit(expired) == IF Dev("keepalive_precedence") THEN expired /\ (ctr > Min \/ pstate # "Running")
                     ELSE (expired /\ ctr > Min) \/ pstate # "Running"
FreeW == {w \in W : wst[w] = "none"}

\* try_grow: one more worker if there is queued work and room
Grow(q, c, ws, r) ==
  IF q # <<>> /\ c < Max /\ FreeW # {}
  THEN LET w == CHOOSE x \in FreeW : \A y \in FreeW : x <= y
       IN <<c + 1, [ws EXCEPT ![w] = "ready"], Append(r, w)>>
  ELSE <<c, ws, r>>

------------------------------------------------------------------------------
(* API thread *)
Submit(t) ==
  /\ Api /\ tst[t] = "none" /\ stopping \in {"no", "done_ok", "done_err"}
  /\ Log([a |-> "submit", t |-> t])
  /\ IF pstate = "Running"
     THEN /\ tq' = Append(tq, t) /\ tst' = [tst EXCEPT ![t] = "queued"] /\ accepted' = accepted \cup {t}
     ELSE /\ tst' = [tst EXCEPT ![t] = "rejected"] /\ UNCHANGED <<tq, accepted>>
  /\ UNCHANGED <<pstate, tw, nsusp, tres, cancelTasks, cancelCo, runningTasks, wst, wtask, rq, ctr, spc, cur, stopping,
                 waits, pending, wpc, notified, viol>>

\* try_cancel_task, called while no pass is in progress (the signal path needs a pass on another
\* thread and is modelled in Cancel.tla)
Cancel(t) ==
  \* (also a late cancel of a task that is over and whose handle was dropped)
  /\ Api /\ spc = "idle" /\ (tst[t] \in {"queued", "running"} \/ (tst[t] = "done" /\ tres[t] = "dropped")) /\ t \notin cancelTasks
  /\ Log([a |-> "cancel", t |-> t])
  /\ IF t \in runningTasks
     THEN cancelCo' = cancelCo \cup {tw[t]} /\ UNCHANGED cancelTasks
     ELSE cancelTasks' = cancelTasks \cup {t} /\ UNCHANGED cancelCo
  /\ tst' = [tst EXCEPT ![t] = IF @ = "queued" THEN "cqueued" ELSE IF @ = "running" THEN "crunning" ELSE @]
  /\ UNCHANGED <<pstate, tq, tw, nsusp, tres, runningTasks, wst, wtask, rq, ctr, spc, cur, stopping, waits, pending,
                 wpc, notified, accepted, viol>>

\* try_cancel_task called from inside a run slice: the running task (or, indistinguishably, another thread during that
\* slice) asks for the cancellation of another task. A target that has started and is suspended is not on any thread:
\* its coroutine is marked, nothing else happens. Named deviation "suspended_looks_on_cpu" (seeded/C13-2): the target's
\* coroutine still counts as executing on the thread that ran it last, the cancel signal goes to that thread and hits the
\* task that is running there now - the caller itself.
CancelFromTask(t) ==
  /\ Go /\ spc = "in" /\ wtask[cur] # 0 /\ t # wtask[cur] /\ tst[t] \in {"queued", "running"} /\ t \notin cancelTasks
  /\ hist' = Append(hist, [a |-> "body", t |-> wtask[cur], step |-> "cancel_task", target |-> t]) /\ UNCHANGED nops
  /\ IF t \in runningTasks /\ Dev("suspended_looks_on_cpu")
     THEN \* the signal cancels the current coroutine: the caller's task is lost with its worker
          /\ tst' = [tst EXCEPT ![wtask[cur]] = "orphaned"]
          /\ wst' = [wst EXCEPT ![cur] = "dropped"] /\ ctr' = ctr - 1 /\ wtask' = [wtask EXCEPT ![cur] = 0]
          /\ runningTasks' = runningTasks \ {wtask[cur]}
          /\ cur' = 0 /\ spc' = "loop"
          /\ UNCHANGED <<cancelTasks, cancelCo>>
     ELSE /\ IF t \in runningTasks
             THEN cancelCo' = cancelCo \cup {tw[t]} /\ UNCHANGED cancelTasks
             ELSE cancelTasks' = cancelTasks \cup {t} /\ UNCHANGED cancelCo
          /\ tst' = [tst EXCEPT ![t] = IF @ = "queued" THEN "cqueued" ELSE "crunning"]
          /\ UNCHANGED <<wst, ctr, wtask, runningTasks, cur, spc>>
  /\ UNCHANGED <<pstate, tq, tw, nsusp, tres, rq, stopping, waits, pending, wpc, notified, accepted, viol>>

\* the task's join handle is dropped before the task has ended (JoinHandle::drop -> clean_task_result):
\* nobody will ask for the result
Abandon(t) ==
  /\ Api /\ spc = "idle" /\ t \notin Waiters /\ tst[t] \in Unfin /\ tres[t] = "none"
  /\ Log([a |-> "abandon", t |-> t])
  /\ tres' = [tres EXCEPT ![t] = "nowait"]
  /\ cancelTasks' = IF Dev("drop_undoes_cancel") THEN cancelTasks \ {t} ELSE cancelTasks
  /\ UNCHANGED <<pstate, tq, tst, tw, nsusp, cancelCo, runningTasks, wst, wtask, rq, ctr, spc, cur, stopping, waits, pending,
                 wpc, notified, accepted, viol>>

\* submit_co with a stack that cannot be mapped: the creation fails, nothing else may change
BadSpawn ==
  /\ Api /\ spc = "idle" /\ Log([a |-> "bad_co"])
  /\ ctr' = IF Dev("count_before_create") /\ ctr < Max THEN ctr + 1 ELSE ctr
  /\ UNCHANGED <<pstate, tq, tst, tw, nsusp, tres, cancelTasks, cancelCo, runningTasks, wst, wtask, rq, spc, cur, stopping, waits,
                 pending, wpc, notified, accepted, viol>>

StopBegin ==
  /\ Api /\ spc = "idle" /\ stopping = "no" /\ pstate = "Running"
  /\ Log([a |-> "stop"])
  /\ pstate' = "Stopping" /\ stopping' = "begin"
  /\ UNCHANGED <<tq, tst, tw, nsusp, tres, cancelTasks, cancelCo, runningTasks, wst, wtask, rq, ctr, spc, cur, waits,
                 pending, wpc, notified, accepted, viol>>

\* do_stop leaves its loop: all workers gone, or the timeout (allowed whenever workers remain)
StopEnd(timedout) ==
  /\ Go /\ spc = "idle" /\ stopping \in {"passes", "quietdone"}
  /\ IF timedout THEN ctr > 0 ELSE ctr = 0
  /\ LET ok == ~timedout \/ Dev("stop_timeout_ok")
         unfinished == {t \in accepted : tst[t] \in Unfin}
     IN /\ stopping' = IF ok THEN "done_ok" ELSE "done_err"
        /\ pstate' = IF ok THEN "Stopped" ELSE pstate
        \* do_clean: every registered waiter gets the "pool has stopped" error
        /\ IF ok THEN /\ tres' = [t \in T |-> IF t \in waits THEN "stop_err" ELSE tres[t]]
                      /\ pending' = [t \in T |-> IF t \in waits THEN FALSE ELSE pending[t]]
                      /\ waits' = {}
                 ELSE UNCHANGED <<tres, pending, waits>>
        \* C11: a whole pass of a stopping pool whose work was all done or cancelled leaves no worker behind,
        \* so a stop that still runs into its limit afterwards is not prompt
        /\ viol' = IF ok /\ unfinished # {} THEN "stop_lost_task"
                   ELSE IF timedout /\ stopping = "quietdone" THEN "stop_slow" ELSE viol
  /\ NoLog
  /\ UNCHANGED <<tq, tst, tw, nsusp, cancelTasks, cancelCo, runningTasks, wst, wtask, rq, ctr, spc, cur, wpc, notified, accepted>>

------------------------------------------------------------------------------
(* scheduling thread *)
PassBegin ==
  /\ (IF stopping \in StopActive THEN Go ELSE Api) /\ spc = "idle" /\ pstate # "Stopped"
  /\ (IF stopping \in StopActive THEN NoLog ELSE Log([a |-> "pass"]))
  /\ stopping' = IF stopping \in {"begin", "passes"} THEN (IF AllWorkDone THEN "quietpass" ELSE "passes") ELSE stopping
  /\ LET g == Grow(tq, ctr, wst, rq) IN ctr' = g[1] /\ wst' = g[2] /\ rq' = g[3]
  /\ spc' = "loop"
  /\ UNCHANGED <<pstate, tq, tst, tw, nsusp, tres, cancelTasks, cancelCo, runningTasks, wtask, cur, waits,
                 pending, wpc, notified, accepted, viol>>

PickWorker ==
  /\ Go /\ spc = "loop" /\ NoLog
  /\ stopping' = IF rq = <<>> /\ stopping = "quietpass" THEN "quietdone" ELSE stopping
  /\ IF rq = <<>>
     THEN /\ spc' = "idle"
          /\ UNCHANGED <<wst, rq, cur, cancelCo, ctr, tst, tres, waits, pending, notified, runningTasks>>
     ELSE LET w == Head(rq) IN
          IF w \in cancelCo
          THEN \* the scheduler drops a cancelled coroutine when it pops it
               LET t == wtask[w] IN
               /\ cancelCo' = cancelCo \ {w}
               /\ IF Dev("silent_cancel_drop")
                  THEN /\ UNCHANGED <<ctr, tres, waits, pending, notified>>
                       /\ rq' = Tail(rq) /\ wst' = [wst EXCEPT ![w] = "dropped"]
                       /\ tst' = IF t # 0 THEN [tst EXCEPT ![t] = "orphaned"] ELSE tst
                  ELSE \* intended: the drop is reported as a cancellation: counter and waiter are settled,
                       \* and the listener replaces the lost worker if work is queued (CoroutineCreator,
                       \* state Cancelled: "recycle first, then create" - running - 1, then try_grow)
                       /\ LET g == Grow(tq, ctr - 1, [wst EXCEPT ![w] = "dropped"], Tail(rq))
                          IN ctr' = g[1] /\ wst' = g[2] /\ rq' = g[3]
                       /\ tst' = IF t # 0 THEN [tst EXCEPT ![t] = "orphaned"] ELSE tst
                       /\ tres' = IF t # 0 THEN [tres EXCEPT ![t] = "stop_err"] ELSE tres
                       /\ waits' = IF t # 0 THEN waits \ {t} ELSE waits
                       /\ pending' = IF t # 0 THEN [pending EXCEPT ![t] = FALSE] ELSE pending
                       /\ notified' = IF t # 0 THEN [notified EXCEPT ![t] = TRUE] ELSE notified
               /\ runningTasks' = IF t # 0 THEN runningTasks \ {t} ELSE runningTasks
               /\ UNCHANGED <<spc, cur>>
          ELSE /\ rq' = Tail(rq) /\ wst' = [wst EXCEPT ![w] = "current"] /\ cur' = w /\ spc' = "in"
               /\ UNCHANGED <<cancelCo, ctr, tst, tres, waits, pending, notified, runningTasks>>
  /\ UNCHANGED <<pstate, tq, tw, nsusp, cancelTasks, wtask, wpc, accepted, viol>>

\* the worker loop looks for a task
WorkerPop ==
  /\ Go /\ spc = "in" /\ wtask[cur] = 0 /\ NoLog
  /\ IF tq # <<>>
     THEN LET t == Head(tq) IN
          IF t \in cancelTasks
          THEN \* skipped: "Cancel task successfully"
               /\ tq' = Tail(tq) /\ cancelTasks' = cancelTasks \ {t} /\ tst' = [tst EXCEPT ![t] = "skipped"]
               /\ IF Dev("cancel_skip_unsettled") THEN UNCHANGED <<tres, waits, pending, notified>>
                  ELSE /\ tres' = [tres EXCEPT ![t] = IF @ = "nowait" THEN "dropped" ELSE "stop_err"] /\ waits' = waits \ {t}
                       /\ pending' = [pending EXCEPT ![t] = FALSE] /\ notified' = [notified EXCEPT ![t] = TRUE]
               /\ UNCHANGED <<tw, runningTasks, wtask, wst, ctr, cur, spc, rq, stopping>>
          ELSE /\ tq' = Tail(tq) /\ tst' = [tst EXCEPT ![t] = "running"] /\ tw' = [tw EXCEPT ![t] = cur]
               /\ wtask' = [wtask EXCEPT ![cur] = t] /\ runningTasks' = runningTasks \cup {t}
               /\ UNCHANGED <<cancelTasks, tres, waits, pending, notified, wst, ctr, cur, spc, rq, stopping>>
     ELSE \* no task: a worker whose keep-alive time has passed and that is above the minimum, or any worker of a
          \* stopping pool, ends; otherwise it yields
          \E expired \in Expiry :
          IF IdleExit(expired)
          THEN /\ wst' = [wst EXCEPT ![cur] = "done"] /\ ctr' = ctr - 1 /\ cur' = 0 /\ spc' = "loop"
               /\ UNCHANGED <<tq, cancelTasks, tst, tw, wtask, runningTasks, tres, waits, pending, notified, rq, stopping>>
          ELSE /\ wst' = [wst EXCEPT ![cur] = "ready"] /\ rq' = Append(rq, cur) /\ cur' = 0 /\ spc' = "idle"
               /\ stopping' = IF stopping = "quietpass" THEN "quietdone" ELSE stopping
               /\ UNCHANGED <<tq, cancelTasks, tst, tw, wtask, runningTasks, tres, waits, pending, notified, ctr>>
  /\ UNCHANGED <<pstate, nsusp, cancelCo, wpc, accepted, viol>>

\* the task body suspends: the worker coroutine yields, the creator listener may grow the pool
TaskSuspend ==
  /\ Go /\ spc = "in" /\ wtask[cur] # 0 /\ nsusp[wtask[cur]] < MaxSusp /\ BodyLog("suspend")
  /\ nsusp' = [nsusp EXCEPT ![wtask[cur]] = @ + 1]
  /\ LET ws1 == [wst EXCEPT ![cur] = "ready"]
         r1 == Append(rq, cur)
         g == Grow(tq, ctr, ws1, r1)
     IN ctr' = g[1] /\ wst' = g[2] /\ rq' = g[3]
  /\ cur' = 0 /\ spc' = "loop"
  /\ UNCHANGED <<pstate, tq, tst, tw, tres, cancelTasks, cancelCo, runningTasks, wtask, stopping, waits, pending, wpc,
                 notified, accepted, viol>>

\* the task body delays itself: the worker coroutine waits in the timer heap until TimerFire
TaskDelay ==
  /\ Go /\ spc = "in" /\ wtask[cur] # 0 /\ nsusp[wtask[cur]] < MaxSusp /\ BodyLog("delay")
  /\ nsusp' = [nsusp EXCEPT ![wtask[cur]] = @ + 1]
  /\ LET ws1 == [wst EXCEPT ![cur] = "parked"]
         g == Grow(tq, ctr, ws1, rq)
     IN ctr' = g[1] /\ wst' = g[2] /\ rq' = g[3]
  /\ cur' = 0 /\ spc' = "loop"
  /\ UNCHANGED <<pstate, tq, tst, tw, tres, cancelTasks, cancelCo, runningTasks, wtask, stopping, waits, pending, wpc,
                 notified, accepted, viol>>

\* time passes: a delayed worker becomes ready (check_ready of the next loop iteration)
TimerFire(w) ==
  /\ Go /\ wst[w] = "parked" /\ spc \in {"idle", "loop"} /\ hist' = Append(hist, [a |-> "timer"]) /\ UNCHANGED nops
  /\ wst' = [wst EXCEPT ![w] = "ready"] /\ rq' = Append(rq, w)
  /\ UNCHANGED <<pstate, tq, tst, tw, nsusp, tres, cancelTasks, cancelCo, runningTasks, wtask, ctr, spc, cur, stopping,
                 waits, pending, wpc, notified, accepted, viol>>

\* R1: the task finished, its result is stored
TaskFinish ==
  /\ Go /\ spc = "in" /\ wtask[cur] # 0 /\ BodyLog("finish")
  /\ LET t == wtask[cur] IN
     /\ tst' = [tst EXCEPT ![t] = "done"]
     /\ runningTasks' = IF Dev("abandoned_stays_running") /\ tres[t] = "nowait" THEN runningTasks ELSE runningTasks \ {t}
     /\ tres' = [tres EXCEPT ![t] = IF @ = "nowait" THEN "dropped" ELSE "stored"]
  /\ spc' = "notify"
  /\ UNCHANGED <<pstate, tq, tw, nsusp, cancelTasks, cancelCo, wst, wtask, rq, ctr, cur, stopping, waits, pending, wpc,
                 notified, accepted, viol>>

\* R2: notify the waiter, if one is registered
Notify ==
  /\ Go /\ spc = "notify" /\ NoLog
  /\ LET t == wtask[cur] IN
     /\ waits' = waits \ {t} /\ pending' = [pending EXCEPT ![t] = FALSE] /\ notified' = [notified EXCEPT ![t] = TRUE]
     /\ wtask' = [wtask EXCEPT ![cur] = 0]
  /\ spc' = "in"
  /\ UNCHANGED <<pstate, tq, tst, tw, nsusp, tres, cancelTasks, cancelCo, runningTasks, wst, rq, ctr, cur, stopping, wpc,
                 accepted, viol>>

------------------------------------------------------------------------------
(* waiter threads: wait_task_result *)
WaitStart(t) ==
  /\ Api /\ t \in Waiters /\ wpc[t] = "off" /\ tst[t] # "none"
  /\ Log([a |-> "wait", t |-> t])
  /\ wpc' = [wpc EXCEPT ![t] = "W1"]
  /\ UNCHANGED <<pstate, tq, tst, tw, nsusp, tres, cancelTasks, cancelCo, runningTasks, wst, wtask, rq, ctr, spc, cur,
                 stopping, waits, pending, notified, accepted, viol>>

Take(t, next) ==
  IF tres[t] \in {"stored", "stop_err"}
  THEN /\ wpc' = [wpc EXCEPT ![t] = IF tres[t] = "stored" THEN "ok" ELSE "err"]
       /\ tres' = [tres EXCEPT ![t] = "taken"]
  ELSE wpc' = [wpc EXCEPT ![t] = next] /\ UNCHANGED tres

W1(t) == /\ Go /\ wpc[t] = "W1" /\ NoLog /\ Take(t, "W2")
         /\ UNCHANGED <<pstate, tq, tst, tw, nsusp, cancelTasks, cancelCo, runningTasks, wst, wtask, rq, ctr, spc, cur,
                        stopping, waits, pending, notified, accepted, viol>>
W2(t) == /\ Go /\ wpc[t] = "W2" /\ NoLog
         /\ waits' = waits \cup {t} /\ pending' = [pending EXCEPT ![t] = TRUE]
         /\ wpc' = [wpc EXCEPT ![t] = IF Dev("join_no_recheck") THEN "W3" ELSE "W2b"]
         /\ UNCHANGED <<pstate, tq, tst, tw, nsusp, tres, cancelTasks, cancelCo, runningTasks, wst, wtask, rq, ctr, spc,
                        cur, stopping, notified, accepted, viol>>
\* intended design: look again after registering
W2b(t) == /\ Go /\ wpc[t] = "W2b" /\ NoLog /\ Take(t, "W3")
          /\ waits' = IF tres[t] \in {"stored", "stop_err"} THEN waits \ {t} ELSE waits
          /\ UNCHANGED <<pstate, tq, tst, tw, nsusp, cancelTasks, cancelCo, runningTasks, wst, wtask, rq, ctr, spc, cur,
                         stopping, pending, notified, accepted, viol>>
\* W3: the condition variable wait returns because it was notified ...
W3wake(t) == /\ Go /\ wpc[t] = "W3" /\ ~pending[t] /\ NoLog
             /\ wpc' = [wpc EXCEPT ![t] = "W4"]
             /\ UNCHANGED <<pstate, tq, tst, tw, nsusp, tres, cancelTasks, cancelCo, runningTasks, wst, wtask, rq, ctr,
                            spc, cur, stopping, waits, pending, notified, accepted, viol>>
\* ... or because the deadline passed: only allowed when nothing else can happen (the deadline is
\* far away); a timeout while the result has been stored and announced is the lost wake-up
W3timeout(t) ==
  /\ Go /\ wpc[t] = "W3" /\ pending[t] /\ NoLog
  /\ spc = "idle" /\ stopping \notin StopActive
  /\ viol' = IF tres[t] \in {"stored", "stop_err"} /\ notified[t] THEN "lost_wakeup"
             ELSE IF tst[t] \in {"skipped", "orphaned"} \/ (pstate = "Stopped" /\ tst[t] \in Unfin)
                  THEN "waiter_unsettled" ELSE viol
  /\ wpc' = [wpc EXCEPT ![t] = "timeout"]
  /\ UNCHANGED <<pstate, tq, tst, tw, nsusp, tres, cancelTasks, cancelCo, runningTasks, wst, wtask, rq, ctr, spc, cur,
                 stopping, waits, pending, notified, accepted>>
\* ... or the deadline passes exactly while the worker that has stored this task's result has not notified yet:
\* the waiter looks once more before it reports a timeout (intended design). Named deviation
\* "timeout_without_last_look": it trusts the condition variable's verdict and reports the timeout (seeded/C02-2)
W3deadline(t) ==
  /\ Go /\ wpc[t] = "W3" /\ pending[t] /\ NoLog
  /\ spc = "notify" /\ wtask[cur] = t
  /\ IF Dev("timeout_without_last_look")
     THEN /\ wpc' = [wpc EXCEPT ![t] = "timeout"]
          /\ viol' = IF tres[t] \in {"stored", "stop_err"} THEN "timeout_although_stored" ELSE viol
     ELSE /\ wpc' = [wpc EXCEPT ![t] = "W4"] /\ UNCHANGED viol
  /\ UNCHANGED <<pstate, tq, tst, tw, nsusp, tres, cancelTasks, cancelCo, runningTasks, wst, wtask, rq, ctr, spc, cur,
                 stopping, waits, pending, notified, accepted>>
W4(t) == /\ Go /\ wpc[t] = "W4" /\ NoLog /\ Take(t, "timeout")
         /\ UNCHANGED <<pstate, tq, tst, tw, nsusp, cancelTasks, cancelCo, runningTasks, wst, wtask, rq, ctr, spc, cur,
                        stopping, waits, pending, notified, accepted, viol>>

Next ==
  \/ \E t \in T : Submit(t) \/ Cancel(t) \/ CancelFromTask(t) \/ Abandon(t) \/ WaitStart(t) \/ W1(t) \/ W2(t) \/ W2b(t) \/ W3wake(t) \/ W3timeout(t) \/ W3deadline(t) \/ W4(t)
  \/ StopBegin \/ StopEnd(TRUE) \/ StopEnd(FALSE) \/ BadSpawn
  \/ PassBegin \/ PickWorker \/ WorkerPop \/ TaskSuspend \/ TaskDelay \/ TaskFinish \/ Notify
  \/ \E w \in W : TimerFire(w)
Spec == Init /\ [][Next]_vars

------------------------------------------------------------------------------
NoViolation == viol = "none"
\* C11: the running counter is exactly the number of live worker coroutines, and bounded
CounterExact == ctr = Cardinality(Alive)
CounterBounded == ctr <= Max
\* C11: once all work is done or cancelled and no pass is in progress, a pool above its minimum has
\* no workers left after a pass that ran out of work
Settled == spc = "idle" /\ rq = <<>> /\ tq = <<>> /\ \A w \in W : wst[w] # "parked"
\* (with a positive keep-alive time idle workers may linger until it has passed: then the clause is StopPrompt below)
DrainsToMin == (~KeepAlive /\ Settled /\ \A t \in T : tst[t] \notin Unfin) => ctr <= Min
\* C11: stopping a pool whose tasks have all finished or been cancelled returns promptly - viol = "stop_slow" in StopEnd
\* C12: the lifecycle only moves forward
Monotone == [][ (pstate = "Stopping" => pstate' # "Running") /\ (pstate = "Stopped" => pstate' = "Stopped") ]_vars
\* C12: nothing is accepted once stopping has begun
RejectAfterStop == \A t \in T : (tst[t] = "rejected") <=> (t \notin accepted /\ tst[t] # "none")
\* C13: a task cancelled before it started never runs
CancelledNeverRuns == [][\A t \in T : tst[t] = "cqueued" => tst'[t] \in {"cqueued", "skipped"}]_vars
\* C13: only a task whose own cancel was requested while it ran loses its worker
NoCollateralDrop == [][\A t \in T : (tst'[t] = "orphaned" /\ tst[t] # "orphaned") => tst[t] = "crunning"]_vars
\* C13 / C01: at quiescence every accepted task that was not cancelled has finished
NoCollateral == (Settled /\ pstate = "Running" /\ cancelCo = {}) =>
                  \A t \in accepted : tst[t] \in {"done", "skipped", "orphaned"}
Quiet == Settled /\ \A t \in T : wpc[t] \notin {"W1", "W2", "W2b", "W4"} /\ (wpc[t] = "W3" => pending[t])
DumpHist == (nops = MaxOps /\ spc = "idle") => PrintT(<<"REPLAY", ToJson(hist)>>)
=============================================================================
