SPECIFICATION Spec
CONSTANTS
  Callers = {"r", "w", "x"}
  MaxEnters = 2
  Deviations = {"mode_from_flag"}
INVARIANTS CallersModeRespected NonblockNeverWaits ModeRestoredWhenQuiet NeverAsksBlocking
CHECK_DEADLOCK FALSE
