SPECIFICATION Spec
CONSTANTS Period = 61
POSTCONDITION Accepted
CHECK_DEADLOCK FALSE
