----------------------------- MODULE StackGrowth -----------------------------
(* Segment bookkeeping of `maybe_grow_with` (core/src/coroutine/korosensei.rs)*)
(* under nested calls, returns and unwinding - property C23.                 *)
(* A frame is one call of maybe_grow_with: it either switched to a fresh     *)
(* segment (grew) or ran its callback in place; its caller may catch panics. *)
(* `segs` is the number of extra segments recorded (the coroutine's          *)
(* stack_infos beyond the first / the thread-local list).                    *)
(* Named deviation "thread_unwind_no_pop": the plain-thread path pops its    *)
(* record only on normal return (code before the fix).                       *)
EXTENDS Naturals, Sequences, FiniteSets, TLC, Json

CONSTANTS MaxDepth, MaxOps, Where, Deviations   \* Where \in {"co", "thread"}

VARIABLES frames, segs, hist
vars == <<frames, segs, hist>>
view == <<frames, segs, Len(hist)>>

Init == frames = <<>> /\ segs = 0 /\ hist = <<>>
Go == Len(hist) < MaxOps
Grown(fs) == Cardinality({i \in DOMAIN fs : fs[i].grew})
NoPop == Where = "thread" /\ "thread_unwind_no_pop" \in Deviations

Enter(g, c) ==
  /\ Go /\ Len(frames) < MaxDepth
  /\ frames' = Append(frames, [grew |-> g, catch |-> (c \/ frames = <<>>)])   \* the outermost call is always guarded
  /\ segs' = IF g THEN segs + 1 ELSE segs
  /\ hist' = Append(hist, [a |-> "enter", grow |-> g, catch |-> (c \/ frames = <<>>)])
Ret ==
  /\ Go /\ frames # <<>>
  /\ frames' = SubSeq(frames, 1, Len(frames) - 1)
  /\ segs' = IF frames[Len(frames)].grew THEN segs - 1 ELSE segs
  /\ hist' = Append(hist, [a |-> "ret"])
Panic ==
  /\ Go /\ frames # <<>>
  /\ LET k == CHOOSE i \in DOMAIN frames : frames[i].catch /\ \A j \in DOMAIN frames : frames[j].catch => j <= i
         kept == SubSeq(frames, 1, k - 1)
     IN /\ frames' = kept
        /\ segs' = IF NoPop THEN segs ELSE segs - (Grown(frames) - Grown(kept))
  /\ hist' = Append(hist, [a |-> "panic"])
\* a recursion that asks for growth at every level and needs several fresh segments, made wherever the program
\* stands (also inside a grown segment after an inner one has returned): all its calls return, so the
\* bookkeeping is as before - but it only survives if the growth decisions taken on the way are sound,
\* i.e. if the records that remain are those of the segments still in use
Deep ==
  /\ Go /\ hist' = Append(hist, [a |-> "deep"]) /\ UNCHANGED <<frames, segs>>
Next == (\E g, c \in BOOLEAN : Enter(g, c)) \/ Ret \/ Panic \/ Deep
Spec == Init /\ [][Next]_vars

\* C23: the recorded segments are exactly those of the calls in progress, in particular
\* they are as before once a call has returned or unwound
Consistent == segs = Grown(frames)
DumpHist == (Len(hist) = MaxOps) => PrintT(<<"REPLAY", ToJson(hist)>>)
=============================================================================
