SPECIFICATION Spec
POSTCONDITION Accepted
CHECK_DEADLOCK FALSE
