------------------------------- MODULE Trace_E2E -------------------------------
(* Observable layer for end-to-end runs over EventLoops (harness/src/bin/e2e.rs)*)
(*  C01  ran_twice, stranded (an accepted task never ran although the loops     *)
(*       kept polling), submit_hang (a submitter never came back)               *)
(*  C02  wrong_result, late_join (join returned long after the result had been  *)
(*       stored), join_timeout_finished (timed out although the task had        *)
(*       finished well before the deadline)                                     *)
(*  C12  stop_lost_task (stop reported success while an accepted task never     *)
(*       ran), accepted_after_stop                                              *)
(*  C15  no_overlap (sleeping tasks of one loop did not overlap)                *)
(*       loop_stalled (a task parked in a hooked call kept the loop's other tasks from running)   *)
(* Every record carries `t` (microseconds, one monotonic clock).                *)
EXTENDS Naturals, Integers, Sequences, FiniteSets, TLC, Json, IOUtils

Rec == ndJsonDeserialize(IOEnv.TRACE)
N == Len(Rec)

VARIABLES l, scen, ntasks, accepted, ran, ranOk, runEnd, stored, twice, stopOkAt, hung, stopped,
          sleepB, sleepE, nviol
vars == <<l, scen, ntasks, accepted, ran, ranOk, runEnd, stored, twice, stopOkAt, hung, stopped, sleepB, sleepE, nviol>>
Init == /\ l = 1 /\ scen = 0 /\ ntasks = 0 /\ accepted = {} /\ ran = {} /\ ranOk = {} /\ runEnd = [t \in {} |-> 0]
        /\ stored = [t \in {} |-> 0] /\ twice = {} /\ stopOkAt = -1 /\ hung = FALSE /\ stopped = FALSE
        /\ sleepB = 0 /\ sleepE = 0 /\ nviol = 0
Viol(clause, detail) == PrintT(<<"VIOL", l, clause, scen, detail>>)
Count(b) == IF b THEN 1 ELSE 0
Get(f, k) == IF k \in DOMAIN f THEN f[k] ELSE -1
Put(f, k, v) == [x \in DOMAIN f \cup {k} |-> IF x = k THEN v ELSE f[x]]
Some(S) == IF S = {} THEN {} ELSE {CHOOSE x \in S : TRUE}

Step ==
  /\ l <= N /\ l' = l + 1
  /\ LET r == Rec[l] ev == r.ev IN
     CASE ev = "ereset" ->
            /\ scen' = r.scenario /\ ntasks' = r.tasks /\ accepted' = {} /\ ran' = {} /\ ranOk' = {}
            /\ runEnd' = [t \in {} |-> 0] /\ stored' = [t \in {} |-> 0] /\ twice' = {} /\ stopOkAt' = -1
            /\ hung' = FALSE /\ stopped' = FALSE /\ sleepB' = 0 /\ sleepE' = 0 /\ UNCHANGED nviol
       [] ev = "submit_e" ->
            LET bad == r.ok /\ stopOkAt >= 0 IN
            /\ (bad => Viol("accepted_after_stop", r.task))
            /\ nviol' = nviol + Count(bad)
            /\ accepted' = IF r.ok THEN accepted \cup {r.task} ELSE accepted
            /\ UNCHANGED <<scen, ntasks, ran, ranOk, runEnd, stored, twice, stopOkAt, hung, stopped, sleepB, sleepE>>
       [] ev = "task_run" ->
            LET bad == r.task \in ran IN
            /\ (bad => Viol("ran_twice", r.task))
            /\ nviol' = nviol + Count(bad) /\ ran' = ran \cup {r.task}
            /\ UNCHANGED <<scen, ntasks, accepted, ranOk, runEnd, stored, twice, stopOkAt, hung, stopped, sleepB, sleepE>>
       [] ev = "task_run_e" ->
            /\ runEnd' = Put(runEnd, r.task, r.t) /\ ranOk' = IF r.ok THEN ranOk \cup {r.task} ELSE ranOk
            /\ UNCHANGED <<scen, ntasks, accepted, ran, stored, twice, stopOkAt, hung, stopped, sleepB, sleepE, nviol>>
       [] ev = "result_stored" ->
            /\ stored' = Put(stored, r.task, r.t)
            /\ UNCHANGED <<scen, ntasks, accepted, ran, ranOk, runEnd, twice, stopOkAt, hung, stopped, sleepB, sleepE, nviol>>
       [] ev \in {"task_run_b", "task_skip", "submitted", "bad_spawn"} ->
            UNCHANGED <<scen, ntasks, accepted, ran, ranOk, runEnd, stored, twice, stopOkAt, hung, stopped, sleepB, sleepE, nviol>>
       [] ev = "sleep_b" ->
            /\ sleepB' = sleepB + 1
            /\ UNCHANGED <<scen, ntasks, accepted, ran, ranOk, runEnd, stored, twice, stopOkAt, hung, stopped, sleepE, nviol>>
       [] ev = "sleep_e" ->
            \* when the first sleeper wakes, every sleeper of this (single) loop must already be asleep
            LET bad == sleepE = 0 /\ sleepB < ntasks IN
            /\ (bad => Viol("no_overlap", <<sleepB, ntasks>>))
            /\ nviol' = nviol + Count(bad) /\ sleepE' = sleepE + 1
            /\ UNCHANGED <<scen, ntasks, accepted, ran, ranOk, runEnd, stored, twice, stopOkAt, hung, stopped, sleepB>>
       [] ev = "mid" ->
            \* (body "duplex") recorded by a thread outside the loop half-way through the parked reader's wait (500 ms in):
            \* every task of the loop must have entered its sleep (they do within 50 ms) - otherwise the loop thread
            \* is not running tasks: it is parked in the kernel by the reader's call
            LET bad == sleepB < ntasks IN
            /\ (bad => Viol("loop_stalled", <<sleepB, ntasks>>))
            /\ nviol' = nviol + Count(bad)
            /\ UNCHANGED <<scen, ntasks, accepted, ran, ranOk, runEnd, stored, twice, stopOkAt, hung, stopped, sleepB, sleepE>>
       [] ev = "submit_hang" ->
            /\ Viol("submit_hang", r.th) /\ nviol' = nviol + 1 /\ hung' = TRUE
            /\ UNCHANGED <<scen, ntasks, accepted, ran, ranOk, runEnd, stored, twice, stopOkAt, stopped, sleepB, sleepE>>
       [] ev = "join_e" ->
            LET t == r.task
                fin == Get(runEnd, t)
                st == Get(stored, t)
                tr == IF "tr" \in DOMAIN r THEN r.tr ELSE r.t   \* when the join came back (not when the record was written)
                b1 == r.out = "ok" /\ ~(t \in ranOk /\ r.v = 1000 + t)
                b2 == r.out = "err" /\ ~(fin >= 0 /\ t \notin ranOk /\ r.v = t)
                b3 == r.out \in {"ok", "err"} /\ st >= 0 /\ r.limit >= 200 /\ r.ms * 2 > r.limit
                      /\ tr - st > (r.limit * 1000) \div 2
                b4 == r.out = "timeout" /\ fin >= 0 /\ fin + 50000 < tr
            IN /\ (b1 => Viol("wrong_result", <<t, r.out, r.v>>))
               /\ (b2 => Viol("wrong_result", <<t, r.out, r.v>>))
               /\ (b3 => Viol("late_join", <<t, r.ms, r.limit>>))
               /\ (b4 => Viol("join_timeout_finished", <<t, r.ms, (tr - fin) \div 1000>>))
               /\ nviol' = nviol + Count(b1) + Count(b2) + Count(b3) + Count(b4)
               /\ UNCHANGED <<scen, ntasks, accepted, ran, ranOk, runEnd, stored, twice, stopOkAt, hung, stopped, sleepB, sleepE>>
       [] ev = "stop_b" -> stopped' = TRUE
                           /\ UNCHANGED <<scen, ntasks, accepted, ran, ranOk, runEnd, stored, twice, stopOkAt, hung, sleepB, sleepE, nviol>>
       [] ev = "stop_e" ->
            LET lost == accepted \ ran
                bad == r.ok /\ lost # {}
            IN /\ (bad => Viol("stop_lost_task", <<Cardinality(lost), Some(lost)>>))
               /\ nviol' = nviol + Count(bad) /\ stopOkAt' = IF r.ok THEN r.t ELSE stopOkAt
               /\ UNCHANGED <<scen, ntasks, accepted, ran, ranOk, runEnd, stored, twice, hung, stopped, sleepB, sleepE>>
       [] ev = "settled" ->
            LET lost == accepted \ ran
                bad == ~hung /\ ~stopped /\ lost # {}
            IN /\ (bad => Viol("stranded", <<Cardinality(lost), Cardinality(accepted), Some(lost)>>))
               /\ nviol' = nviol + Count(bad)
               /\ UNCHANGED <<scen, ntasks, accepted, ran, ranOk, runEnd, stored, twice, stopOkAt, hung, stopped, sleepB, sleepE>>
       [] ev = "died" -> /\ Viol(r.how, r.msg) /\ nviol' = nviol + 1
                         /\ UNCHANGED <<scen, ntasks, accepted, ran, ranOk, runEnd, stored, twice, stopOkAt, hung, stopped, sleepB, sleepE>>
       [] ev = "eend" -> UNCHANGED <<scen, ntasks, accepted, ran, ranOk, runEnd, stored, twice, stopOkAt, hung, stopped, sleepB, sleepE, nviol>>
Spec == Init /\ [][Step]_vars
Accepted == /\ PrintT(<<"ACCEPT", TLCGet("stats").diameter - 1, N>>)
            /\ TLCGet("stats").diameter - 1 = N
=============================================================================
