---------------------------- MODULE SelectorRace ----------------------------
(* Two threads change the readiness interest of one descriptor on one         *)
(* selector at the same time (property C21 for every schedule):               *)
(*   core/src/net/selector/mod.rs   add_read_event / add_write_event /        *)
(*                                  del_read_event / del_write_event          *)
(* e.g. a coroutine on the event-loop thread starts to wait for readability   *)
(* while a plain thread's hooked send starts to wait for writability of the   *)
(* same socket.  Each of these functions looks at the records (what is        *)
(* registered), then changes the kernel's registration (epoll_ctl ADD / MOD / *)
(* DEL), then updates the records: three steps.  Selector.tla takes them as   *)
(* one; this module is about what lies between them.                          *)
(*                                                                            *)
(* Intended design (Deviations = {}): the three steps of one operation are    *)
(* one critical section.                                                      *)
(* Named deviation "unlocked" (the code before this round's fix): the steps   *)
(* of two operations interleave - an ADD meets a registration the records did *)
(* not show yet (EEXIST: the hooked call fails with an error number of the    *)
(* runtime's own), or the records are written from a stale look (the kernel   *)
(* keeps an interest nobody is waiting for, or loses one somebody is).        *)
EXTENDS Naturals, FiniteSets, TLC

CONSTANTS Ops,         \* the operations made concurrently: a set of <<caller, "addR" | "addW" | "delR" | "delW">>
          InitRec,     \* records (= kernel interest) before: a subset of {"R", "W"}
          Deviations
Dev(d) == d \in Deviations

VARIABLES rec,     \* recorded interest: subset of {"R", "W"}
          ker,     \* interest the kernel holds; {} = not registered
          pc,      \* [Ops -> "start" | "looked" | "changed" | "done" | "failed"]
          saw,     \* [Ops -> the records as the operation saw them]
          lock     \* the operation inside the critical section, or <<>>
vars == <<rec, ker, pc, saw, lock>>

Init == /\ rec = InitRec /\ ker = InitRec /\ pc = [o \in Ops |-> "start"] /\ saw = [o \in Ops |-> {}] /\ lock = <<>>

Kind(o) == o[2]
Bit(o) == IF Kind(o) \in {"addR", "delR"} THEN "R" ELSE "W"
IsAdd(o) == Kind(o) \in {"addR", "addW"}

\* step 1: look at the records (taking the lock in the intended design)
Look(o) ==
  /\ pc[o] = "start" /\ (Dev("unlocked") \/ lock = <<>>)
  /\ lock' = IF Dev("unlocked") THEN lock ELSE o
  /\ saw' = [saw EXCEPT ![o] = rec] /\ pc' = [pc EXCEPT ![o] = "looked"]
  /\ UNCHANGED <<rec, ker>>
Finish(o, st) == /\ pc' = [pc EXCEPT ![o] = st] /\ lock' = IF lock = o THEN <<>> ELSE lock
\* step 2: change the kernel's registration according to what was seen
\*   add: nothing recorded -> ADD (fails with EEXIST if the kernel has the descriptor); else MOD to the union
\*   del: the other interest recorded -> MOD to the other one; else DEL
Change(o) ==
  /\ pc[o] = "looked"
  /\ IF IsAdd(o)
     THEN IF Bit(o) \in saw[o] THEN /\ Finish(o, "done") /\ UNCHANGED <<rec, ker, saw>>       \* already registered: nothing to do
          ELSE IF saw[o] = {}
               THEN IF ker # {} THEN /\ Finish(o, "failed") /\ UNCHANGED <<rec, ker, saw>>   \* EEXIST
                    ELSE /\ ker' = {Bit(o)} /\ pc' = [pc EXCEPT ![o] = "changed"] /\ UNCHANGED <<rec, saw, lock>>
               ELSE /\ ker' = saw[o] \cup {Bit(o)} /\ pc' = [pc EXCEPT ![o] = "changed"] /\ UNCHANGED <<rec, saw, lock>>
     ELSE IF Bit(o) \notin saw[o] THEN /\ Finish(o, "done") /\ UNCHANGED <<rec, ker, saw>>
          ELSE /\ ker' = saw[o] \ {Bit(o)} /\ pc' = [pc EXCEPT ![o] = "changed"] /\ UNCHANGED <<rec, saw, lock>>
\* step 3: update the records
Record(o) ==
  /\ pc[o] = "changed"
  /\ rec' = IF IsAdd(o) THEN rec \cup {Bit(o)} ELSE (IF saw[o] \ {Bit(o)} = {} THEN {} ELSE rec \ {Bit(o)})
  /\ Finish(o, "done") /\ UNCHANGED <<ker, saw>>

Next == \E o \in Ops : Look(o) \/ Change(o) \/ Record(o)
Spec == Init /\ [][Next]_vars

Quiet == \A o \in Ops : pc[o] \in {"done", "failed"}
\* C21: with no operation in progress the kernel's interest is what is recorded
InterestExact == Quiet => ker = rec
\* no operation fails because of another one
NoSpuriousFailure == \A o \in Ops : pc[o] # "failed"
\* every interest somebody added and nobody removed is there (and nothing else)
Wanted == (InitRec \cup {Bit(o) : o \in {x \in Ops : IsAdd(x)}}) \ {Bit(o) : o \in {x \in Ops : ~IsAdd(x)}}
Unambiguous == \A o1, o2 \in Ops : o1 # o2 => Bit(o1) # Bit(o2)
OutcomeExact == (Quiet /\ Unambiguous) => ker = Wanted
=============================================================================
