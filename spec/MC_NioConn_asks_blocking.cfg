SPECIFICATION Spec
CONSTANTS
  MaxCalls = 3
  Deviations = {"asks_blocking"}
INVARIANTS NonblockNeverWaits ModeRestored NeverAsksBlocking ReturnOK
CHECK_DEADLOCK FALSE
