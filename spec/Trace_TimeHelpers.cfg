SPECIFICATION Spec
CONSTANTS
  W = 4
  NsPerSec = 4
  NsPerUsec = 2
POSTCONDITION Accepted
CHECK_DEADLOCK FALSE
