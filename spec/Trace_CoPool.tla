----------------------------- MODULE Trace_CoPool -----------------------------
(* Observable layer for the coroutine pool: validates traces of the real       *)
(* CoroutinePool recorded by harness/src/bin/pool.rs (one process per          *)
(* scenario).  Worker coroutines are tracked from the hook events co_submit /  *)
(* chg / cancel_drop, tasks from submit_e / task_* / result_stored, waiters    *)
(* from wait_b / wait_e, the lifecycle from probe / stop_b / stop_e.  Every     *)
(* record carries `t`, microseconds of one monotonic clock.                     *)
(*  C11: running_mismatch, over_max, stop_slow                                  *)
(*  C12: pstate_backwards, accepted_after_stop, stop_lost_task, waiter_unsettled,*)
(*       stop_never_completes (a stop with a limit >= 200 ms failed although    *)
(*       every accepted task had finished or been cancelled 100 ms before it    *)
(*       returned: the pool cannot leave Stopping)                              *)
(*  C13: ran_after_cancel, collateral_skip, lost_task                           *)
(*  C02: wrong_result, late_join          C01: ran_twice      C05: task_order   *)
EXTENDS Naturals, Integers, Sequences, FiniteSets, TLC, Json, IOUtils

Rec == ndJsonDeserialize(IOEnv.TRACE)
N == Len(Rec)

VARIABLES l, scen, max, ordered,
          alive,     \* worker coroutines alive
          ts,        \* [task -> "none" | "queued" | "running" | "done" | "skipped" | "rejected"]
          okrun,     \* [task -> BOOLEAN] the task body returned (did not panic)
          canQ, canR,\* tasks cancelled while queued / while running
          stored,    \* [task -> time its result was stored, -1]
          prio, subseq, \* submission priority and order
          started,   \* sequence of tasks in start order
          ps,        \* last pool state seen
          stopOk,    \* stop() has reported success
          settled,   \* the settle passes at the end of the scenario have run
          allDoneAt, \* time since which no accepted task was unfinished (-1 if some still is)
          nviol
vars == <<l, scen, max, ordered, alive, ts, okrun, canQ, canR, stored, prio, subseq, started, ps, stopOk, settled, allDoneAt, nviol>>

Init == /\ l = 1 /\ scen = 0 /\ max = 0 /\ ordered = FALSE /\ alive = {} /\ ts = <<>> /\ okrun = <<>> /\ canQ = {} /\ canR = {}
        /\ stored = <<>> /\ prio = <<>> /\ subseq = <<>> /\ started = <<>> /\ ps = "Running" /\ stopOk = FALSE
        /\ settled = FALSE /\ allDoneAt = -1 /\ nviol = 0
Viol(clause, detail) == PrintT(<<"VIOL", l, clause, scen, detail>>)
Count(b) == IF b THEN 1 ELSE 0
Tasks == DOMAIN ts
Unfinished(s) == {t \in DOMAIN s : s[t] \in {"queued", "running"} /\ t \notin canQ /\ t \notin canR}
Rank(st) == CASE st = "Running" -> 0 [] st = "Stopping" -> 1 [] OTHER -> 2

\* the task that should start next when one worker serves a fully queued batch in priority order
BestQueued == LET q == {t \in Tasks : ts[t] = "queued" /\ t \notin canQ} IN
              IF q = {} THEN 0
              ELSE CHOOSE t \in q : \A u \in q : prio[t] < prio[u] \/ (prio[t] = prio[u] /\ subseq[t] <= subseq[u])

Step ==
  /\ l <= N /\ l' = l + 1
  /\ LET r == Rec[l] ev == r.ev IN
     CASE ev = "preset" ->
            /\ scen' = r.scenario /\ max' = r.max /\ ordered' = r.order /\ alive' = {}
            /\ ts' = [t \in 1..r.nt |-> "none"] /\ okrun' = [t \in 1..r.nt |-> FALSE] /\ canQ' = {} /\ canR' = {}
            /\ stored' = [t \in 1..r.nt |-> -1] /\ prio' = [t \in 1..r.nt |-> 0] /\ subseq' = [t \in 1..r.nt |-> 0]
            /\ started' = <<>> /\ ps' = "Running" /\ stopOk' = FALSE /\ settled' = FALSE /\ allDoneAt' = -1
            /\ UNCHANGED nviol
       [] ev = "submit_e" ->
            LET t == r.task
                bad == r.ok /\ ps # "Running"
            IN /\ (bad => Viol("accepted_after_stop", <<t, ps>>))
               /\ nviol' = nviol + Count(bad)
               /\ ts' = [ts EXCEPT ![t] = IF r.ok THEN "queued" ELSE "rejected"]
               /\ prio' = [prio EXCEPT ![t] = r.prio]
               /\ subseq' = [subseq EXCEPT ![t] = Cardinality({u \in Tasks : ts[u] # "none"}) + 1]
               /\ allDoneAt' = IF r.ok THEN -1 ELSE allDoneAt
               /\ UNCHANGED <<scen, max, ordered, alive, okrun, canQ, canR, stored, started, ps, stopOk, settled>>
       [] ev = "co_submit" ->
            /\ alive' = alive \cup {r.w}
            /\ UNCHANGED <<scen, max, ordered, ts, okrun, canQ, canR, stored, prio, subseq, started, ps, stopOk, settled, allDoneAt, nviol>>
       [] ev = "chg" ->
            /\ alive' = IF r.new \in {"Complete", "Error", "Cancelled"} THEN alive \ {r.w} ELSE alive
            /\ UNCHANGED <<scen, max, ordered, ts, okrun, canQ, canR, stored, prio, subseq, started, ps, stopOk, settled, allDoneAt, nviol>>
       [] ev = "cancel_drop" ->
            /\ alive' = alive \ {r.w}
            /\ UNCHANGED <<scen, max, ordered, ts, okrun, canQ, canR, stored, prio, subseq, started, ps, stopOk, settled, allDoneAt, nviol>>
       [] ev = "cancel" ->
            LET t == r.task IN
            /\ canQ' = IF ts[t] = "queued" THEN canQ \cup {t} ELSE canQ
            /\ canR' = IF ts[t] = "running" THEN canR \cup {t} ELSE canR
            /\ allDoneAt' = IF allDoneAt = -1 /\ Unfinished(ts) \subseteq {t} /\ ts[t] \in {"queued", "running"} THEN r.t ELSE allDoneAt
            /\ UNCHANGED <<scen, max, ordered, alive, ts, okrun, stored, prio, subseq, started, ps, stopOk, settled, nviol>>
       [] ev = "task_pop" -> UNCHANGED <<scen, max, ordered, alive, ts, okrun, canQ, canR, stored, prio, subseq, started, ps, stopOk, settled, allDoneAt, nviol>>
       [] ev = "chain" ->
            \* a follow-up submission made by a task: it must be refused once the pool is stopping
            LET bad == r.ok /\ ps # "Running" IN
            /\ (bad => Viol("accepted_after_stop", <<r.task, ps>>))
            /\ nviol' = nviol + Count(bad)
            /\ UNCHANGED <<scen, max, ordered, alive, ts, okrun, canQ, canR, stored, prio, subseq, started, ps, stopOk, settled, allDoneAt>>
       [] ev = "abandon" -> UNCHANGED <<scen, max, ordered, alive, ts, okrun, canQ, canR, stored, prio, subseq, started, ps, stopOk, settled, allDoneAt, nviol>>
       [] ev = "tstep" -> UNCHANGED <<scen, max, ordered, alive, ts, okrun, canQ, canR, stored, prio, subseq, started, ps, stopOk, settled, allDoneAt, nviol>>
       [] ev = "task_skip" ->
            LET t == r.task bad == t \notin canQ IN
            /\ (bad => Viol("collateral_skip", t))
            /\ nviol' = nviol + Count(bad)
            /\ ts' = [ts EXCEPT ![t] = "skipped"]
            /\ UNCHANGED <<scen, max, ordered, alive, okrun, canQ, canR, stored, prio, subseq, started, ps, stopOk, settled, allDoneAt>>
       [] ev = "task_run_b" ->
            LET t == r.task
                b1 == ts[t] \in {"running", "done"}
                b2 == t \in canQ
                b3 == ordered /\ BestQueued # 0 /\ BestQueued # t
            IN /\ (b1 => Viol("ran_twice", t))
               /\ (b2 => Viol("ran_after_cancel", t))
               /\ (b3 => Viol("task_order", <<t, BestQueued>>))
               /\ nviol' = nviol + Count(b1) + Count(b2) + Count(b3)
               /\ ts' = [ts EXCEPT ![t] = "running"] /\ started' = Append(started, t)
               /\ UNCHANGED <<scen, max, ordered, alive, okrun, canQ, canR, stored, prio, subseq, ps, stopOk, settled, allDoneAt>>
       [] ev = "task_run_e" ->
            LET t == r.task
                ts2 == [ts EXCEPT ![t] = "done"]
            IN /\ ts' = ts2 /\ okrun' = [okrun EXCEPT ![t] = r.ok]
               /\ allDoneAt' = IF Unfinished(ts2) = {} THEN r.t ELSE allDoneAt
               /\ UNCHANGED <<scen, max, ordered, alive, canQ, canR, stored, prio, subseq, started, ps, stopOk, settled, nviol>>
       [] ev = "result_stored" ->
            /\ stored' = [stored EXCEPT ![r.task] = r.t]
            /\ UNCHANGED <<scen, max, ordered, alive, ts, okrun, canQ, canR, prio, subseq, started, ps, stopOk, settled, allDoneAt, nviol>>
       [] ev = "probe" ->
            LET b1 == r.running # Cardinality(alive)
                b2 == r.running > max
                b3 == Rank(r.pstate) < Rank(ps)
            IN /\ (b1 => Viol("running_mismatch", <<r.running, alive>>))
               /\ (b2 => Viol("over_max", <<r.running, max>>))
               /\ (b3 => Viol("pstate_backwards", <<ps, r.pstate>>))
               /\ nviol' = nviol + Count(b1) + Count(b2) + Count(b3)
               /\ ps' = r.pstate
               /\ UNCHANGED <<scen, max, ordered, alive, ts, okrun, canQ, canR, stored, prio, subseq, started, stopOk, settled, allDoneAt>>
       [] ev \in {"pass_b", "pass_e", "wait_b", "take", "bad_co"} ->
            UNCHANGED <<scen, max, ordered, alive, ts, okrun, canQ, canR, stored, prio, subseq, started, ps, stopOk, settled, allDoneAt, nviol>>
       [] ev = "settled" ->
            \* after the settle passes of a running pool every accepted, not cancelled task has run
            LET lost == IF ps = "Running" THEN Unfinished(ts) ELSE {} IN
            /\ (lost # {} => Viol("lost_task", lost))
            /\ nviol' = nviol + Count(lost # {}) /\ settled' = TRUE
            /\ UNCHANGED <<scen, max, ordered, alive, ts, okrun, canQ, canR, stored, prio, subseq, started, ps, stopOk, allDoneAt>>
       [] ev = "stop_b" ->
            /\ ps' = IF ps = "Running" THEN "Stopping" ELSE ps
            /\ UNCHANGED <<scen, max, ordered, alive, ts, okrun, canQ, canR, stored, prio, subseq, started, stopOk, settled, allDoneAt, nviol>>
       [] ev = "stop_e" ->
            LET lost == Unfinished(ts)
                b1 == r.ok /\ lost # {}
                \* prompt: every accepted task had finished or been cancelled well before stop began
                b2 == allDoneAt >= 0 /\ r.limit >= 200 /\ r.ms * 10 > r.limit * 8 /\ (r.t - r.ms * 1000) > allDoneAt + 20000
                b3 == ~r.ok /\ lost = {} /\ r.limit >= 200 /\ allDoneAt >= 0 /\ r.t - allDoneAt > 100000
            IN /\ (b1 => Viol("stop_lost_task", lost))
               /\ (b2 => Viol("stop_slow", <<r.ms, r.limit>>))
               /\ (b3 => Viol("stop_never_completes", <<r.ms, r.limit>>))
               /\ nviol' = nviol + Count(b1) + Count(b2) + Count(b3)
               /\ stopOk' = (stopOk \/ r.ok)
               /\ UNCHANGED <<scen, max, ordered, alive, ts, okrun, canQ, canR, stored, prio, subseq, started, ps, settled, allDoneAt>>
       [] ev = "wait_e" ->
            LET t == r.task
                b1 == r.out = "ok" /\ ~(ts[t] = "done" /\ okrun[t] /\ r.v = 1000 + t)
                b2 == r.out = "err" /\ r.v # 0 /\ ~(ts[t] = "done" /\ ~okrun[t] /\ r.v = t)
                \* late: the result had been stored long before the wait returned, and the wait was long
                \* (not when the driver itself held the worker between its store and its notify: forcing "deadline in the window")
                b3 == r.out \in {"ok", "err"} /\ stored[t] >= 0 /\ r.limit >= 200 /\ ~r.held
                      /\ r.ms * 2 > r.limit /\ r.t - stored[t] > (r.limit * 1000) \div 2
                \* a waiter for a task that can no longer run must get an error, not wait out its time
                b4 == r.out = "timeout" /\ (ts[t] = "skipped" \/ (stopOk /\ ts[t] = "queued"))
                \* timed out although the result had been stored at least 20 ms before the deadline (CoPool!W3deadline)
                b5 == r.out = "timeout" /\ stored[t] >= 0 /\ r.limit >= 200
                      /\ stored[t] + 20000 < (r.t - r.ms * 1000) + r.limit * 1000
            IN /\ (b1 => Viol("wrong_result", <<t, r.out, r.v>>))
               /\ (b2 => Viol("wrong_result", <<t, r.out, r.v>>))
               /\ (b3 => Viol("late_join", <<t, r.ms, r.limit>>))
               /\ (b4 => Viol("waiter_unsettled", <<t, ts[t]>>))
               /\ (b5 => Viol("late_join", <<t, "timeout although stored">>))
               /\ nviol' = nviol + Count(b1) + Count(b2) + Count(b3) + Count(b4) + Count(b5)
               /\ UNCHANGED <<scen, max, ordered, alive, ts, okrun, canQ, canR, stored, prio, subseq, started, ps, stopOk, settled, allDoneAt>>
       [] ev = "died" -> /\ Viol(r.how, r.msg) /\ nviol' = nviol + 1
                         /\ UNCHANGED <<scen, max, ordered, alive, ts, okrun, canQ, canR, stored, prio, subseq, started, ps, stopOk, settled, allDoneAt>>
       [] ev = "pend" -> UNCHANGED <<scen, max, ordered, alive, ts, okrun, canQ, canR, stored, prio, subseq, started, ps, stopOk, settled, allDoneAt, nviol>>
Spec == Init /\ [][Step]_vars
Accepted == /\ PrintT(<<"ACCEPT", TLCGet("stats").diameter - 1, N>>)
            /\ TLCGet("stats").diameter - 1 = N
=============================================================================
