SPECIFICATION Spec
CONSTANTS
  Fds = {1, 2}
  Tvs = {0, 1, 2}
  MaxOps = 7
  Deviations = {"cache_per_number"}
VIEW view
INVARIANTS NoViolation CacheSound
CHECK_DEADLOCK FALSE
