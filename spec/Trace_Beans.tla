----------------------------- MODULE Trace_Beans -----------------------------
(* Observable layer of property C26: in every round all concurrent first     *)
(* lookups of a name and the later lookup return the same instance.          *)
(* Records (harness/src/bin/beans.rs): breset{scenario,mode,threads},        *)
(* lookup{t,obj} (obj = index of the distinct address returned), final{obj}, *)
(* bend.  Clause "split": two callers, or a caller and the later lookup,     *)
(* got different instances.                                                  *)
EXTENDS Naturals, Sequences, FiniteSets, TLC, Json, IOUtils

Rec == ndJsonDeserialize(IOEnv.TRACE)
N == Len(Rec)
VARIABLES l, scen, objs, fin, nviol
vars == <<l, scen, objs, fin, nviol>>
Init == l = 1 /\ scen = 0 /\ objs = {} /\ fin = 0 /\ nviol = 0
Viol(clause, detail) == PrintT(<<"VIOL", l, clause, scen, detail>>)

Step ==
  /\ l <= N /\ l' = l + 1
  /\ LET r == Rec[l] ev == r.ev IN
     CASE ev = "breset" -> scen' = r.scenario /\ objs' = {} /\ fin' = 0 /\ UNCHANGED nviol
       [] ev = "lookup" -> objs' = objs \cup {r.obj} /\ UNCHANGED <<scen, fin, nviol>>
       [] ev = "final" -> fin' = r.obj /\ UNCHANGED <<scen, objs, nviol>>
       [] ev = "sched" -> UNCHANGED <<scen, objs, fin, nviol>>
       [] ev = "died" -> Viol(r.how, r.msg) /\ nviol' = nviol + 1 /\ UNCHANGED <<scen, objs, fin>>
       [] ev = "bend" ->
            LET bad == Cardinality(objs \cup {fin}) > 1 \/ fin = 0 IN
            /\ (bad => Viol("split", <<objs, fin>>))
            /\ nviol' = IF bad THEN nviol + 1 ELSE nviol
            /\ UNCHANGED <<scen, objs, fin>>
Spec == Init /\ [][Step]_vars
Accepted == /\ PrintT(<<"ACCEPT", TLCGet("stats").diameter - 1, N>>)
            /\ TLCGet("stats").diameter - 1 = N
=============================================================================
