------------------------------ MODULE SpillRace ------------------------------
(* The spill loop of a full ordered local queue against sibling steals         *)
(* (property C04): core/src/common/ordered_work_steal.rs push_to_global.       *)
(*   count = local_len / 2;  done = 0                                          *)
(*   while done < count { before = done; for every priority bucket: pop one    *)
(*   item and move it to the shared queue, done += 1;                          *)
(*   if done == before { break } }                                             *)
(* One action per pop by the owner, one per steal by a sibling (a steal takes  *)
(* any positive number of the items that are left).  Items only leave the      *)
(* local queue here, so the siblings' steps are finite.                        *)
(* Named deviation "break_only_if_nothing_moved": the loop's exit test is      *)
(* `done == 0` instead of `done == before` - a push whose spill has moved      *)
(* something and then finds the rest stolen spins for ever (seeded/C04).       *)
EXTENDS Naturals, TLC

CONSTANTS Cap, Deviations
Dev == "break_only_if_nothing_moved" \in Deviations

VARIABLES local,   \* items in the owner's local queue
          count, done, before,
          pc       \* owner: "start" | "pass" | "scan" | "check" | "fin"
vars == <<local, count, done, before, pc>>

Init == local = Cap /\ count = 0 /\ done = 0 /\ before = 0 /\ pc = "start"

Start == /\ pc = "start" /\ count' = local \div 2 /\ done' = 0 /\ pc' = "pass" /\ UNCHANGED <<local, before>>
\* while done < count { before = done; ...
Pass == /\ pc = "pass"
        /\ IF done < count THEN before' = done /\ pc' = "scan" ELSE pc' = "fin" /\ UNCHANGED before
        /\ UNCHANGED <<local, count, done>>
\* the for loop over the buckets: move one item, or reach the end of the buckets
Move == /\ pc = "scan" /\ done < count /\ local > 0
        /\ local' = local - 1 /\ done' = done + 1 /\ UNCHANGED <<count, before, pc>>
EndScan == /\ pc = "scan" /\ (done >= count \/ local = 0)
           /\ pc' = "check" /\ UNCHANGED <<local, count, done, before>>
\* if done == before { break }
Check == /\ pc = "check"
         /\ pc' = IF (IF Dev THEN done = 0 ELSE done = before) THEN "fin" ELSE "pass"
         /\ UNCHANGED <<local, count, done, before>>
Owner == Start \/ Pass \/ Move \/ EndScan \/ Check
\* a sibling steals k of the items that are left
Steal(k) == /\ pc # "fin" /\ k <= local /\ local' = local - k /\ UNCHANGED <<count, done, before, pc>>
Next == Owner \/ \E k \in 1..Cap : Steal(k)
Spec == Init /\ [][Next]_vars /\ WF_vars(Owner)

TypeOK == local \in 0..Cap /\ done \in 0..Cap /\ done <= count
\* C04: the push returns
Terminates == <>(pc = "fin")
\* nothing is moved beyond what the push set out to move
Bounded == done <= Cap \div 2
=============================================================================
