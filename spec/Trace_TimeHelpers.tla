-------------------------- MODULE Trace_TimeHelpers --------------------------
(* Observable layer of property C28: results of the real get_timeout_time,  *)
(* get_slices and socket time limits (harness/src/bin/helpers.rs), computed  *)
(* at arguments x * K64 (K64 = 0x1111111111111111, 15 * K64 = u64::MAX) or   *)
(* x * (u64::MAX/15) seconds, and reported back in units of the scale, are   *)
(* compared with the operators of TimeOps.tla for W = 4.                     *)
EXTENDS TimeOps, TLC, Json, IOUtils

Rec == ndJsonDeserialize(IOEnv.TRACE)
N == Len(Rec)
VARIABLES l, scen, nviol
vars == <<l, scen, nviol>>
Init == l = 1 /\ scen = 0 /\ nviol = 0
Viol(clause, detail) == PrintT(<<"VIOL", l, clause, scen, detail>>)
Count(b) == IF b THEN 1 ELSE 0

Step ==
  /\ l <= N /\ l' = l + 1
  /\ LET r == Rec[l] ev == r.ev IN
     CASE ev = "hreset" -> scen' = r.scenario /\ UNCHANGED nviol
       [] ev = "hend" -> UNCHANGED <<scen, nviol>>
       [] ev = "died" -> Viol(r.how, r.msg) /\ nviol' = nviol + 1 /\ UNCHANGED scen
       [] ev = "deadline" ->
            \* now lies in [nowlo, nowhi) scale units; a = MAX + 1 is "more than the word holds"
            LET must == r.a > MAX \/ r.a + r.nowlo >= MAX
                mustnot == r.a <= MAX /\ r.a + r.nowhi <= MAX
                b1 == must /\ ~r.sat
                b2 == mustnot /\ r.sat
                b3 == ~r.window_ok
            IN /\ (b1 => Viol("deadline_wrap", r))
               /\ (b2 => Viol("deadline_early_sat", r))
               /\ (b3 => Viol("deadline_value", r))
               /\ nviol' = nviol + Count(b1) + Count(b2) + Count(b3) /\ UNCHANGED scen
       [] ev = "slices" ->
            LET want == SlicesOf(r.a, r.b)
                bad == r.pieces # want
            IN /\ (bad => Viol("slices", <<r.a, r.b, r.pieces, want>>))
               /\ nviol' = nviol + Count(bad) /\ UNCHANGED scen
       [] ev = "limit" ->
            LET b1 == r.zero /\ ~r.unlimited
                b2 == ~r.zero /\ ~r.matches
            IN /\ (b1 => Viol("limit_zero", r))
               /\ (b2 => Viol("limit_value", r))
               /\ nviol' = nviol + Count(b1) + Count(b2) /\ UNCHANGED scen
Spec == Init /\ [][Step]_vars
Accepted == /\ PrintT(<<"ACCEPT", TLCGet("stats").diameter - 1, N>>)
            /\ TLCGet("stats").diameter - 1 = N
=============================================================================
