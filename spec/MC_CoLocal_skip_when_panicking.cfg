SPECIFICATION Spec
CONSTANTS
  NCo = 2
  Keys = {"k1", "k2"}
  MaxOps = 6
  Deviations = {"skip_when_panicking"}
VIEW view
INVARIANTS Accounted NoAlias
PROPERTIES Private
CHECK_DEADLOCK FALSE
