SPECIFICATION Spec
CONSTANTS
  Cos = {"c1"}
  Threads = {"t1", "t2"}
  MaxCalls = 2
  Deviations = {"sq_concurrent_push"}
INVARIANTS NoViolation OwnResult NoLostCompletion OneSlotPerToken
PROPERTIES Returns
CHECK_DEADLOCK FALSE
