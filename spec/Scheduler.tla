------------------------------ MODULE Scheduler ------------------------------
(* Design model of core/src/scheduler.rs (property C10): one scheduling       *)
(* thread, a priority ready queue, the timer heap of suspended coroutines,    *)
(* the syscall table with its own timer heap, the cancel set, and a virtual   *)
(* clock.  One iteration of the loop of `do_schedule` (check_ready, pop,      *)
(* cancel test, resume, dispatch on the returned state) is one action; the    *)
(* clock may tick between iterations.  Coroutine bodies are programs chosen   *)
(* step by step: suspend, delay(d), park(d) (a syscall-state wait with a      *)
(* timeout, as the hooked calls do), return, panic.                           *)
(*                                                                            *)
(* Named deviation "stale_sys_timer": entries of the syscall timer heap are   *)
(* not removed when the coroutine is woken by a callback, so an old entry can *)
(* time out a later wait of the same coroutine early (code as it is).         *)
(* A cancel request can also be made from inside a run slice - by the running *)
(* coroutine for itself or for a waiting one (another thread's request that   *)
(* arrives during the slice looks the same): Iter's parameter `sc`.           *)
(* Named deviation "cancel_forgotten_on_yield": the request for the coroutine *)
(* that has just been resumed is erased from the cancel set when its slice    *)
(* ends (seeded/C10-2), so a request made during the slice is lost.           *)
EXTENDS Naturals, Integers, Sequences, FiniteSets, TLC, Json

CONSTANTS NCo, MaxSteps, MaxT, MaxOps, Deviations

Co == 1..NCo
Prio == [c \in Co |-> IF c = 2 THEN 1 ELSE 0]   \* coroutine 2 has the lower priority
Stale == "stale_sys_timer" \in Deviations
Forget == "cancel_forgotten_on_yield" \in Deviations

VARIABLES cs,        \* [Co -> "none" | "ready" | "suspend" | "syscall" | "done" | "dropped"]
          wake,      \* [Co -> wake-up time of the wait in progress, -1 if none]
          how,       \* [Co -> how the coroutine was made ready: "new" | "yield" | "timer" | "timeout" | "callback"]
          ready,     \* sequence of coroutines (arrival order); pop takes best priority, FIFO among equals
          sysHeap,   \* set of <<ts, co>> entries of the syscall timer heap
          cancelSet, \* ids in CANCEL_COROUTINES
          cancelled, \* [Co -> BOOLEAN] a cancel request was made while the coroutine was waiting
          steps,     \* [Co -> body steps taken]
          reports,   \* [Co -> number of times a result was reported]
          now, inPass, passStart, viol, hist
vars == <<cs, wake, how, ready, sysHeap, cancelSet, cancelled, steps, reports, now, inPass, passStart, viol, hist>>
view == <<cs, wake, how, ready, sysHeap, cancelSet, cancelled, steps, reports, now, inPass, passStart, viol, Len(hist)>>

Init ==
  /\ cs = [c \in Co |-> "none"] /\ wake = [c \in Co |-> -1] /\ how = [c \in Co |-> "new"]
  /\ ready = <<>> /\ sysHeap = {} /\ cancelSet = {} /\ cancelled = [c \in Co |-> FALSE]
  /\ steps = [c \in Co |-> 0] /\ reports = [c \in Co |-> 0]
  /\ now = 0 /\ inPass = FALSE /\ passStart = 0 /\ viol = "none" /\ hist = <<>>

Go == viol = "none" /\ Len(hist) < MaxOps
Log(e) == hist' = Append(hist, e)

BestIdx(q) == CHOOSE i \in DOMAIN q : \A j \in DOMAIN q : Prio[q[i]] < Prio[q[j]] \/ (Prio[q[i]] = Prio[q[j]] /\ i <= j)
Remove(q, i) == [j \in 1..(Len(q) - 1) |-> IF j < i THEN q[j] ELSE q[j + 1]]
RECURSIVE AppendAll(_, _)
AppendAll(q, S) == IF S = {} THEN q ELSE LET c == CHOOSE x \in S : \A y \in S : x <= y IN AppendAll(Append(q, c), S \ {c})

Submit(c) ==
  /\ Go /\ ~inPass /\ cs[c] = "none"
  /\ cs' = [cs EXCEPT ![c] = "ready"] /\ ready' = Append(ready, c)
  /\ Log([a |-> "submit", c |-> c, prio |-> Prio[c]])
  /\ UNCHANGED <<wake, how, sysHeap, cancelSet, cancelled, steps, reports, now, inPass, passStart, viol>>

Tick ==
  /\ Go /\ now < MaxT /\ now' = now + 1 /\ Log([a |-> "tick"])
  /\ UNCHANGED <<cs, wake, how, ready, sysHeap, cancelSet, cancelled, steps, reports, inPass, passStart, viol>>

CancelReq(c) ==
  /\ Go /\ ~inPass /\ cs[c] \in {"ready", "suspend", "syscall"} /\ c \notin cancelSet
  /\ cancelSet' = cancelSet \cup {c} /\ cancelled' = [cancelled EXCEPT ![c] = TRUE]
  /\ Log([a |-> "cancel", c |-> c])
  /\ UNCHANGED <<cs, wake, how, ready, sysHeap, steps, reports, now, inPass, passStart, viol>>

TryResume(c) ==
  /\ Go /\ ~inPass /\ cs[c] = "syscall"
  /\ cs' = [cs EXCEPT ![c] = "ready"] /\ how' = [how EXCEPT ![c] = "callback"] /\ ready' = Append(ready, c)
  /\ sysHeap' = IF Stale THEN sysHeap ELSE {e \in sysHeap : e[2] # c}
  /\ Log([a |-> "try_resume", c |-> c])
  /\ UNCHANGED <<wake, cancelSet, cancelled, steps, reports, now, inPass, passStart, viol>>

PassBegin ==
  /\ Go /\ ~inPass /\ inPass' = TRUE /\ passStart' = now /\ Log([a |-> "pass"])
  /\ UNCHANGED <<cs, wake, how, ready, sysHeap, cancelSet, cancelled, steps, reports, now, viol>>

\* check_ready: timers that are due
DueSusp == {c \in Co : cs[c] = "suspend" /\ wake[c] <= now}
DueSysEntries == {e \in sysHeap : e[1] <= now}
DueSys == {c \in Co : cs[c] = "syscall" /\ \E e \in DueSysEntries : e[2] = c}

\* one iteration of the scheduling loop; `step` is the body's next step if a coroutine is resumed
Iter(step, d, sc) ==
  /\ Go /\ inPass
  /\ LET cs1 == [c \in Co |-> IF c \in DueSusp \cup DueSys THEN "ready" ELSE cs[c]]
         how1 == [c \in Co |-> IF c \in DueSusp THEN "timer" ELSE IF c \in DueSys THEN "timeout" ELSE how[c]]
         heap1 == sysHeap \ DueSysEntries
         rq1 == AppendAll(AppendAll(ready, DueSusp), DueSys)
     IN IF rq1 = <<>>
        THEN \* nothing to run: the pass returns (quiescent)
             /\ step = "none" /\ d = 0 /\ sc = 0
             /\ inPass' = FALSE
             /\ viol' = IF \E c \in Co : cs1[c] \in {"suspend", "syscall"} /\ wake[c] <= passStart /\ ~cancelled[c]
                        THEN "missed_wake" ELSE viol
             /\ cs' = cs1 /\ how' = how1 /\ sysHeap' = heap1 /\ ready' = rq1
             /\ hist' = hist
             /\ UNCHANGED <<wake, cancelSet, cancelled, steps, reports, now, passStart>>
        ELSE LET i == BestIdx(rq1) c == rq1[i] rq2 == Remove(rq1, i) IN
             IF c \in cancelSet
             THEN \* dropped without being resumed
                  /\ step = "none" /\ d = 0 /\ sc = 0
                  /\ cancelSet' = cancelSet \ {c}
                  /\ cs' = [cs1 EXCEPT ![c] = "dropped"] /\ how' = how1 /\ sysHeap' = heap1 /\ ready' = rq2
                  /\ hist' = hist
                  /\ UNCHANGED <<wake, cancelled, steps, reports, now, inPass, passStart, viol>>
             ELSE \* resume c: its body takes its next step
                  /\ step \in {"suspend", "delay", "park", "return", "panic"}
                  /\ (step \in {"delay", "park"} => d \in 1..2) /\ (step \notin {"delay", "park"} => d = 0)
                  /\ (steps[c] + 1 >= MaxSteps => step \in {"return", "panic"})
                  /\ steps' = [steps EXCEPT ![c] = @ + 1]
                  /\ viol' = IF cancelled[c] THEN "resumed_after_cancel"
                             ELSE IF how1[c] \in {"timer", "timeout"} /\ now < wake[c] THEN "early_wake"
                             ELSE viol
                  \* a cancel request made during the slice, before the step: for itself, or for a waiting one
                  /\ (sc # 0 => /\ sc \notin cancelSet
                                /\ (sc = c \/ cs1[sc] \in {"ready", "suspend", "syscall"}))
                  /\ cancelSet' = IF Forget THEN (cancelSet \cup (IF sc = 0 THEN {} ELSE {sc})) \ {c}
                                  ELSE cancelSet \cup (IF sc = 0 THEN {} ELSE {sc})
                  /\ cancelled' = IF sc # 0 /\ ~(sc = c /\ step \in {"return", "panic"})
                                  THEN [cancelled EXCEPT ![sc] = TRUE] ELSE cancelled
                  /\ hist' = Append(hist, [a |-> "body", c |-> c, step |-> step, d |-> d, cancel |-> sc])
                  /\ CASE step = "suspend" ->
                            /\ cs' = [cs1 EXCEPT ![c] = "ready"] /\ how' = [how1 EXCEPT ![c] = "yield"]
                            /\ ready' = Append(rq2, c) /\ wake' = [wake EXCEPT ![c] = -1]
                            /\ sysHeap' = heap1 /\ UNCHANGED reports
                       [] step = "delay" ->
                            /\ cs' = [cs1 EXCEPT ![c] = "suspend"] /\ how' = how1
                            /\ ready' = rq2 /\ wake' = [wake EXCEPT ![c] = now + d]
                            /\ sysHeap' = heap1 /\ UNCHANGED reports
                       [] step = "park" ->
                            /\ cs' = [cs1 EXCEPT ![c] = "syscall"] /\ how' = how1
                            /\ ready' = rq2 /\ wake' = [wake EXCEPT ![c] = now + d]
                            /\ sysHeap' = heap1 \cup {<<now + d, c>>} /\ UNCHANGED reports
                       [] step \in {"return", "panic"} ->
                            /\ cs' = [cs1 EXCEPT ![c] = "done"] /\ how' = how1
                            /\ ready' = rq2 /\ wake' = [wake EXCEPT ![c] = -1]
                            /\ sysHeap' = heap1 /\ reports' = [reports EXCEPT ![c] = @ + 1]
                  /\ UNCHANGED <<now, inPass, passStart>>

Next ==
  \/ \E c \in Co : Submit(c) \/ CancelReq(c) \/ TryResume(c)
  \/ Tick \/ PassBegin
  \/ \E step \in {"none", "suspend", "delay", "park", "return", "panic"}, d \in 0..2, sc \in 0..NCo : Iter(step, d, sc)
Spec == Init /\ [][Next]_vars

------------------------------------------------------------------------------
\* C10: no early wake, wake by the first pass at or after the wake-up time, a coroutine cancelled
\* while waiting is never resumed again
NoViolation == viol = "none"
\* C10: each finished coroutine is reported exactly once
ResultOnce == \A c \in Co : reports[c] = (IF cs[c] = "done" THEN 1 ELSE 0)
\* the ready queue holds exactly the ready coroutines, once each
ReadyExact == /\ {ready[i] : i \in DOMAIN ready} = {c \in Co : cs[c] = "ready"}
              /\ Cardinality({ready[i] : i \in DOMAIN ready}) = Len(ready)
\* a cancel request never changes another coroutine (frame condition, as an action property)
OthersUnaffected == [][\A c \in Co : (\E e \in {hist'[Len(hist')]} : Len(hist') > Len(hist) /\ e.a = "cancel" /\ e.c # c)
                                       => (cs'[c] = cs[c] /\ wake'[c] = wake[c] /\ steps'[c] = steps[c])]_vars
Quiet == ~inPass /\ \A c \in Co : cs[c] \in {"done", "dropped", "none"}
DumpHist == (Len(hist) = MaxOps \/ (Quiet /\ Len(hist) > 2)) => PrintT(<<"REPLAY", ToJson(hist)>>)
=============================================================================
