SPECIFICATION Spec
CONSTANTS
  K = 3
  MaxSteps = 3
  MaxResumes = 4
  Deviations = {}
VIEW view
INVARIANTS DumpHist
CHECK_DEADLOCK FALSE
