----------------------------- MODULE Trace_Migrate -----------------------------
(* Observable layer of Migrate.tla on the real runtime (harness/src/bin/mig.rs): *)
(* scheduling threads that steal yielded coroutines from each other.  Every body *)
(* reports, at its start and after every resumption, the thread it runs on and   *)
(* the owner of that thread's current suspender (`cur`: a coroutine id, 0 = none,*)
(* -1 = a pointer no live body owns); idle threads report theirs.                *)
(*   foreign_current   a running body finds another coroutine's suspender (or    *)
(*                     none) as the thread's current one   (Migrate!BodyFindsOwn)*)
(*   stale_current     a thread that runs no coroutine still has a current       *)
(*                     suspender                            (Migrate!CurrentExact)*)
(*   order             a body's reports are not k = 0, 1, 2, ... in sequence     *)
(*   unfinished        not every coroutine finished                              *)
(*   abort / hang / panic   the process died                                     *)
(* The monitor also counts migrations (a body resumed on another thread than the *)
(* one it last ran on): a run without any is reported as not exercised.          *)
EXTENDS Naturals, Integers, Sequences, FiniteSets, TLC, Json, IOUtils
Rec == ndJsonDeserialize(IOEnv.TRACE)
N == Len(Rec)
VARIABLES l, scen, lastTh, lastK, moved, nviol
vars == <<l, scen, lastTh, lastK, moved, nviol>>
Init == l = 1 /\ scen = 0 /\ lastTh = <<>> /\ lastK = <<>> /\ moved = 0 /\ nviol = 0
Viol(clause, detail) == PrintT(<<"VIOL", l, clause, scen, detail>>)
Count(b) == IF b THEN 1 ELSE 0
Has(f, k) == k \in DOMAIN f
Step ==
  /\ l <= N /\ l' = l + 1
  /\ LET r == Rec[l] ev == r.ev IN
     CASE ev = "greset" -> /\ scen' = r.scenario /\ lastTh' = <<>> /\ lastK' = <<>> /\ moved' = 0 /\ UNCHANGED nviol
       [] ev = "g_body" ->
            LET b1 == r.cur # r.co
                b2 == IF Has(lastK, r.co) THEN r.k # lastK[r.co] + 1 ELSE r.k # 0
                mv == Has(lastTh, r.co) /\ lastTh[r.co] # r.th
            IN /\ (b1 => Viol("foreign_current", <<r.co, r.k, r.cur>>))
               /\ (b2 => Viol("order", <<r.co, r.k>>))
               /\ nviol' = nviol + Count(b1) + Count(b2)
               /\ lastTh' = (r.co :> r.th) @@ lastTh /\ lastK' = (r.co :> r.k) @@ lastK
               /\ moved' = moved + Count(mv) /\ UNCHANGED scen
       [] ev = "g_fin" ->
            LET b1 == r.cur # r.co IN
            /\ (b1 => Viol("foreign_current", <<r.co, -1, r.cur>>))
            /\ nviol' = nviol + Count(b1) /\ UNCHANGED <<scen, lastTh, lastK, moved>>
       [] ev = "g_idle" ->
            LET b1 == r.cur # 0 IN
            /\ (b1 => Viol("stale_current", <<r.th, r.cur>>))
            /\ nviol' = nviol + Count(b1) /\ UNCHANGED <<scen, lastTh, lastK, moved>>
       [] ev = "g_thread" ->
            LET bad == r.all < r.want IN
            /\ (bad => Viol("unfinished", <<r.th, r.all, r.want>>))
            /\ nviol' = nviol + Count(bad) /\ UNCHANGED <<scen, lastTh, lastK, moved>>
       [] ev = "died" -> Viol(r.how, r.msg) /\ nviol' = nviol + 1 /\ UNCHANGED <<scen, lastTh, lastK, moved>>
       [] ev = "gend" -> PrintT(<<"STAT", scen, moved>>) /\ UNCHANGED <<scen, lastTh, lastK, moved, nviol>>
Spec == Init /\ [][Step]_vars
Accepted == /\ PrintT(<<"ACCEPT", TLCGet("stats").diameter - 1, N>>)
            /\ TLCGet("stats").diameter - 1 = N
=============================================================================
