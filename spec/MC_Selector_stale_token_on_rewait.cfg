SPECIFICATION Spec
CONSTANTS
  NLoops = 2
  Fds = {1, 2}
  Halves = {1, 2}
  MaxOps = 5
  Deviations = {"stale_token_on_rewait"}
VIEW view
INVARIANTS InterestExact NoViolation TokenOfWaiter
CHECK_DEADLOCK FALSE
