------------------------------- MODULE WSQObs -------------------------------
(* Pure operators shared by the design model (WorkStealQueue.tla) and the   *)
(* trace specification (Trace_WSQ.tla) of the work-steal queues of          *)
(* core/src/common/{work_steal,ordered_work_steal}.rs.                      *)
(*                                                                          *)
(* A *location* (the shared queue, or one local queue) is a sequence of     *)
(* records [item, prio] in arrival order.  "Best" is what properties C05    *)
(* asks a pop to return: smallest priority value first, FIFO among equals.  *)
EXTENDS Naturals, Integers, Sequences, FiniteSets

Min2(a, b) == IF a <= b THEN a ELSE b
Max2(a, b) == IF a >= b THEN a ELSE b
SatSub(a, b) == IF a >= b THEN a - b ELSE 0

Items(loc) == {loc[i].item : i \in DOMAIN loc}

\* index of the best element of a non-empty location
BestIdx(loc) ==
  CHOOSE i \in DOMAIN loc :
    \A j \in DOMAIN loc :
      \/ loc[i].prio < loc[j].prio
      \/ (loc[i].prio = loc[j].prio /\ i <= j)

Best(loc) == loc[BestIdx(loc)]

RemoveAt(loc, i) == [j \in 1..(Len(loc) - 1) |-> IF j < i THEN loc[j] ELSE loc[j + 1]]

IdxOf(loc, x) == IF x \in Items(loc) THEN CHOOSE i \in DOMAIN loc : loc[i].item = x ELSE 0

RemoveItem(loc, x) == IF IdxOf(loc, x) = 0 THEN loc ELSE RemoveAt(loc, IdxOf(loc, x))

\* first (oldest) index holding priority p, 0 if none
FirstOfPrio(loc, p) ==
  IF \E i \in DOMAIN loc : loc[i].prio = p
  THEN CHOOSE i \in DOMAIN loc : loc[i].prio = p /\ \A j \in DOMAIN loc : loc[j].prio = p => i <= j
  ELSE 0

CountPrio(loc, p) == Cardinality({i \in DOMAIN loc : loc[i].prio = p})

\* the n oldest elements of priority p, in order
RECURSIVE TakePrio(_, _, _, _)
TakePrio(loc, p, n, acc) ==
  IF n = 0 \/ FirstOfPrio(loc, p) = 0 THEN <<loc, acc>>
  ELSE LET i == FirstOfPrio(loc, p) IN TakePrio(RemoveAt(loc, i), p, n - 1, Append(acc, loc[i]))

\* property C05 for one pop: x may be returned from location loc
PopOK(loc, x) == loc # <<>> /\ Best(loc).item = x

\* smallest power of two >= n (st3 rounds worker capacities up), for n <= 1024
Pow2Up(n) == CHOOSE k \in {1, 2, 4, 8, 16, 32, 64, 128, 256, 512, 1024} :
               k >= n /\ \A m \in {1, 2, 4, 8, 16, 32, 64, 128, 256, 512, 1024} : m >= n => k <= m
=============================================================================
