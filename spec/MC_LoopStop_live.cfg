SPECIFICATION FairSpec
CONSTANTS
  NLoops = 2
  NSubs = 2
  PerSub = 1
  MaxStops = 1
  Deviations = {}
INVARIANTS TypeOK StopSettles
PROPERTIES LoopsLeave
CHECK_DEADLOCK FALSE
