---------------------------- MODULE Trace_Scheduler ----------------------------
(* Observable layer of property C10: validates traces of the real Scheduler   *)
(* recorded by harness/src/bin/sched.rs.  Times are microseconds since the    *)
(* start of the scenario, all read from the clock the scheduler itself uses   *)
(* (a requested wake-up time is logged rounded up, a resumption time rounded  *)
(* down, so rounding can only hide - never create - an early wake).           *)
(* Clauses:                                                                    *)
(*   early_wake            a delayed coroutine ran before its wake-up time     *)
(*   missed_wake           a pass that began after the wake-up time and ran    *)
(*                         out of work did not resume it                       *)
(*   stranded_ready        a pass ran out of work while a coroutine that only  *)
(*                         yielded (plain suspend) was not resumed             *)
(*   resumed_after_cancel  a coroutine cancelled while waiting - or during the *)
(*                         run slice it then ended by yielding - ran again     *)
(*   result_twice / result_value / result_phantom / result_missing             *)
(*   early_timeout         (informational) a syscall-state wait was timed out  *)
(*                         before its own time by a stale timer entry          *)
EXTENDS Naturals, Integers, Sequences, FiniteSets, TLC, Json, IOUtils

Rec == ndJsonDeserialize(IOEnv.TRACE)
N == Len(Rec)

VARIABLES l, scen,
          st,        \* [co -> "none" | "ready" | "running" | "delay" | "park" | "done" | "cancelled"]
          wake,      \* [co -> requested wake-up time, -1 if none]
          cb,        \* [co -> BOOLEAN] try_resume was called for the wait in progress
          want,      \* [co -> announced outcome <<kind, v>>]
          nres,      \* [co -> results reported]
          passb,     \* begin time of the pass in progress
          pend,      \* coroutines for which a cancel request was made while they were running
          nviol
vars == <<l, scen, st, wake, cb, want, nres, passb, pend, nviol>>

Init == l = 1 /\ scen = 0 /\ st = <<>> /\ wake = <<>> /\ cb = <<>> /\ want = <<>> /\ nres = <<>> /\ passb = 0 /\ pend = {} /\ nviol = 0
Viol(clause, detail) == PrintT(<<"VIOL", l, clause, scen, detail>>)
Count(b) == IF b THEN 1 ELSE 0
Cos == DOMAIN st

RECURSIVE CheckResults(_, _, _, _)
\* returns the number of violations among the result entries, printing each
CheckResults(rs, i, nr, acc) ==
  IF i > Len(rs) THEN acc
  ELSE LET e == rs[i] c == e.co
           known == c \in Cos
           b1 == known /\ nr[c] >= 1
           b2 == known /\ want[c][1] \notin {"return", "panic"}
           b3 == known /\ want[c][1] \in {"return", "panic"} /\ (e.ok # (want[c][1] = "return") \/ e.v # want[c][2])
           b4 == ~known
       IN IF b1 THEN (IF Viol("result_twice", e) THEN CheckResults(rs, i + 1, nr, acc + 1) ELSE 0)
          ELSE IF b4 THEN (IF Viol("result_phantom", e) THEN CheckResults(rs, i + 1, nr, acc + 1) ELSE 0)
          ELSE IF b2 THEN (IF Viol("result_phantom", e) THEN CheckResults(rs, i + 1, nr, acc + 1) ELSE 0)
          ELSE IF b3 THEN (IF Viol("result_value", <<e, want[c]>>) THEN CheckResults(rs, i + 1, nr, acc + 1) ELSE 0)
          ELSE CheckResults(rs, i + 1, nr, acc)

Reported(rs) == {rs[i].co : i \in DOMAIN rs}

Step ==
  /\ l <= N /\ l' = l + 1
  /\ LET r == Rec[l] ev == r.ev IN
     CASE ev = "sreset" ->
            /\ scen' = r.scenario /\ st' = [c \in 1..r.nco |-> "none"] /\ wake' = [c \in 1..r.nco |-> -1]
            /\ cb' = [c \in 1..r.nco |-> FALSE] /\ want' = [c \in 1..r.nco |-> <<"none", 0>>]
            /\ nres' = [c \in 1..r.nco |-> 0] /\ passb' = 0 /\ pend' = {} /\ UNCHANGED nviol
       [] ev = "submit" ->
            /\ st' = [st EXCEPT ![r.co] = "ready"] /\ UNCHANGED <<scen, wake, cb, want, nres, passb, pend, nviol>>
       [] ev = "pass_b" -> passb' = r.now /\ UNCHANGED <<scen, st, wake, cb, want, nres, pend, nviol>>
       [] ev = "resumed" ->
            LET c == r.co
                b1 == st[c] = "cancelled"
                b2 == st[c] = "delay" /\ r.now < wake[c]
                b3 == st[c] = "done"
                b4 == st[c] = "park" /\ ~cb[c] /\ r.now < wake[c]
            IN /\ (b1 => Viol("resumed_after_cancel", <<c, r.now>>))
               /\ (b2 => Viol("early_wake", <<c, r.now, wake[c]>>))
               /\ (b3 => Viol("ran_after_done", <<c>>))
               /\ (b4 => Viol("early_timeout", <<c, r.now, wake[c]>>))
               /\ nviol' = nviol + Count(b1) + Count(b2) + Count(b3) + Count(b4)
               /\ st' = [st EXCEPT ![c] = "running"] /\ wake' = [wake EXCEPT ![c] = -1]
               /\ cb' = [cb EXCEPT ![c] = FALSE]
               /\ UNCHANGED <<scen, want, nres, passb, pend>>
       [] ev = "yield" ->
            LET c == r.co IN
            \* a request made during the slice takes effect when the coroutine gives the thread back unfinished
            /\ st' = [st EXCEPT ![c] = CASE r.kind \in {"suspend", "delay", "park"} /\ c \in pend -> "cancelled"
                                         [] r.kind = "suspend" -> "ready"
                                         [] r.kind = "delay" -> "delay"
                                         [] r.kind = "park" -> "park"
                                         [] OTHER -> "done"]
            /\ pend' = pend \ {c}
            /\ wake' = [wake EXCEPT ![c] = IF r.kind \in {"delay", "park"} THEN r.ts ELSE -1]
            /\ want' = [want EXCEPT ![c] = <<r.kind, r.v>>]
            /\ UNCHANGED <<scen, cb, nres, passb, nviol>>
       [] ev = "cancel" ->
            \* only a coroutine that is waiting (not finished) is affected by the request
            /\ st' = [st EXCEPT ![r.co] = IF @ \in {"ready", "delay", "park"} THEN "cancelled" ELSE @]
            /\ pend' = IF st[r.co] = "running" THEN pend \cup {r.co} ELSE pend
            /\ UNCHANGED <<scen, wake, cb, want, nres, passb, nviol>>
       [] ev = "try_resume" ->
            /\ cb' = [cb EXCEPT ![r.co] = (st[r.co] = "park")]
            /\ UNCHANGED <<scen, st, wake, want, nres, passb, pend, nviol>>
       [] ev = "pass_e" ->
            LET nbad == CheckResults(r.results, 1, nres, 0)
                missed == {c \in Cos : st[c] \in {"delay", "park"} /\ wake[c] >= 0 /\ wake[c] < passb}
                strand == {c \in Cos : st[c] = "ready"}
                b1 == r.quiescent /\ missed # {}
                b2 == r.quiescent /\ strand # {}
            IN /\ (b1 => Viol("missed_wake", <<missed, passb>>))
               /\ (b2 => Viol("stranded_ready", strand))
               /\ nviol' = nviol + nbad + Count(b1) + Count(b2)
               /\ nres' = [c \in Cos |-> IF c \in Reported(r.results) THEN nres[c] + 1 ELSE nres[c]]
               /\ UNCHANGED <<scen, st, wake, cb, want, passb, pend>>
       [] ev = "pass_err" -> /\ Viol("pass_error", r.msg) /\ nviol' = nviol + 1
                             /\ UNCHANGED <<scen, st, wake, cb, want, nres, passb, pend>>
       [] ev = "died" -> /\ Viol(r.how, r.msg) /\ nviol' = nviol + 1
                         /\ UNCHANGED <<scen, st, wake, cb, want, nres, passb, pend>>
       [] ev = "send" ->
            LET miss == {c \in Cos : st[c] = "done" /\ nres[c] = 0}
                unfinished == {c \in Cos : st[c] \in {"ready", "delay", "park", "running"}}
            IN /\ (miss # {} => Viol("result_missing", miss))
               /\ (unfinished # {} => Viol("never_finished", unfinished))
               /\ nviol' = nviol + Count(miss # {}) + Count(unfinished # {})
               /\ UNCHANGED <<scen, st, wake, cb, want, nres, passb, pend>>
Spec == Init /\ [][Step]_vars
Accepted == /\ PrintT(<<"ACCEPT", TLCGet("stats").diameter - 1, N>>)
            /\ TLCGet("stats").diameter - 1 = N
=============================================================================
