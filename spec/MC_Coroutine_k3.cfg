SPECIFICATION Spec
CONSTANTS
  K = 3
  MaxSteps = 2
  MaxResumes = 5
  Deviations = {}
VIEW view
INVARIANTS TypeOK NoViolation NoLeak CurrentDiscipline TerminalAbsorbing
PROPERTIES EdgesOK Absorbing
CHECK_DEADLOCK FALSE
