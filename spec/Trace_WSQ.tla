------------------------------ MODULE Trace_WSQ ------------------------------
(* Trace specification (observable layer, monitor form) for the work-steal  *)
(* queues: validates NDJSON traces recorded from the real code by           *)
(* harness/src/bin/wsq.rs (single driver thread) against what properties    *)
(* C03 (conservation, reported length), C04 (termination), C05 (priority /  *)
(* FIFO order, no spill below capacity) and C06 (shared queue not starved,  *)
(* idle queue finds work) allow.  Every record is consumed; a record that   *)
(* contradicts a property prints <<"VIOL", index, clause, scenario, detail>>*)
(* and the state is repaired so that the rest of the trace is still checked.*)
EXTENDS WSQObs, TLC, Json, IOUtils

CONSTANT Period          \* 61 in the code

Rec == ndJsonDeserialize(IOEnv.TRACE)
N == Len(Rec)

VARIABLES l,        \* next record to consume
          nq, cap, scen,
          shared, local, outs, pushed, since,
          cur,      \* operation in progress
          drained,  \* a quiescent drain was recorded in this scenario
          nviol

vars == <<l, nq, cap, scen, shared, local, outs, pushed, since, cur, drained, nviol>>

NoCur == [kind |-> "none"]

Init ==
  /\ l = 1 /\ nq = 0 /\ cap = 0 /\ scen = 0
  /\ shared = <<>> /\ local = <<>> /\ outs = {} /\ pushed = {} /\ since = <<>>
  /\ cur = NoCur /\ drained = FALSE /\ nviol = 0

Viol(clause, detail) == PrintT(<<"VIOL", l, clause, scen, detail>>)

AllEmpty == shared = <<>> /\ \A q \in DOMAIN local : local[q] = <<>>
Everywhere == Items(shared) \cup UNION {Items(local[q]) : q \in DOMAIN local}

\* relative order of same-priority items is kept by a batch move
RECURSIVE OrderKept(_, _)
OrderKept(src, mv) ==
  \A i, j \in DOMAIN mv :
    (i < j /\ mv[i].prio = mv[j].prio /\ IdxOf(src, mv[i].item) # 0 /\ IdxOf(src, mv[j].item) # 0)
      => IdxOf(src, mv[i].item) < IdxOf(src, mv[j].item)

RECURSIVE RemoveAll(_, _)
RemoveAll(loc, mv) == IF mv = <<>> THEN loc ELSE RemoveAll(RemoveItem(loc, Head(mv).item), Tail(mv))

Step ==
  /\ l <= N
  /\ l' = l + 1
  /\ LET r == Rec[l] ev == r.ev IN
     CASE ev = "reset" ->
            /\ nq' = r.nq /\ cap' = r.cap /\ scen' = r.scenario
            /\ shared' = <<>> /\ local' = [q \in 1..r.nq |-> <<>>]
            /\ outs' = {} /\ pushed' = {} /\ since' = [q \in 1..r.nq |-> 0]
            /\ cur' = NoCur /\ drained' = FALSE /\ UNCHANGED nviol
       [] ev = "gpush" ->
            /\ shared' = Append(shared, [item |-> r.item, prio |-> r.prio])
            /\ pushed' = pushed \cup {r.item}
            /\ UNCHANGED <<nq, cap, scen, local, outs, since, cur, drained, nviol>>
       [] ev = "lpush_b" ->
            /\ cur' = [kind |-> "lpush", q |-> r.q, item |-> r.item, prio |-> r.prio,
                       spillb |-> FALSE, mv |-> <<>>]
            /\ pushed' = pushed \cup {r.item}
            /\ UNCHANGED <<nq, cap, scen, shared, local, outs, since, drained, nviol>>
       [] ev = "spill_b" ->
            /\ cur' = IF cur.kind = "lpush" THEN [cur EXCEPT !.spillb = TRUE] ELSE cur
            /\ UNCHANGED <<nq, cap, scen, shared, local, outs, pushed, since, drained, nviol>>
       [] ev = "spill" ->
            /\ cur' = IF cur.kind = "lpush" THEN [cur EXCEPT !.mv = Append(@, [item |-> r.item, prio |-> r.prio])] ELSE cur
            /\ UNCHANGED <<nq, cap, scen, shared, local, outs, pushed, since, drained, nviol>>
       [] ev = "lpush_e" ->
            LET q == r.q
                x == [item |-> r.item, prio |-> r.prio]
                src == local[q]
                mv == cur.mv
                phantom == \E i \in DOMAIN mv : IdxOf(src, mv[i].item) = 0
                            \/ mv[i].prio # src[IdxOf(src, mv[i].item)].prio
                twice == \E i, j \in DOMAIN mv : i # j /\ mv[i].item = mv[j].item
                early == cur.spillb /\ Len(src) < cap
                order == ~OrderKept(src, mv)
                bad == phantom \/ twice \/ early \/ order
            IN /\ (phantom => Viol("spill_phantom", mv))
               /\ (twice => Viol("spill_dup", mv))
               /\ (early => Viol("early_spill", <<Len(src), cap>>))
               /\ (order => Viol("spill_order", mv))
               /\ nviol' = IF bad THEN nviol + 1 ELSE nviol
               /\ IF cur.spillb
                  THEN /\ local' = [local EXCEPT ![q] = RemoveAll(src, mv)]
                       /\ shared' = (shared \o SelectSeq(mv, LAMBDA m : IdxOf(src, m.item) # 0)) \o <<x>>
                  ELSE /\ local' = [local EXCEPT ![q] = Append(src, x)]
                       /\ shared' = shared
               /\ cur' = NoCur
               /\ UNCHANGED <<nq, cap, scen, outs, pushed, since, drained>>
       [] ev = "lpop_b" ->
            /\ cur' = [kind |-> "lpop", q |-> r.q, waiting |-> (shared # <<>>)]
            /\ UNCHANGED <<nq, cap, scen, shared, local, outs, pushed, since, drained, nviol>>
       [] ev = "steal" ->
            LET v == r.victim t == r.thief
                have == CountPrio(local[v], r.prio)
                bad == r.n < 1 \/ r.n > have \/ v = t
                tk == TakePrio(local[v], r.prio, Min2(r.n, have), <<>>)
            IN /\ (bad => Viol("steal_phantom", <<r.n, have, v, t>>))
               /\ nviol' = IF bad THEN nviol + 1 ELSE nviol
               /\ local' = IF v = t THEN local ELSE [local EXCEPT ![v] = tk[1], ![t] = @ \o tk[2]]
               /\ UNCHANGED <<nq, cap, scen, shared, outs, pushed, since, cur, drained>>
       [] ev = "lpop_e" ->
            LET q == r.q x == r.item
                waiting == IF cur.kind = "lpop" THEN cur.waiting ELSE shared # <<>>
                inLocal == x \in Items(local[q])
                inShared == x \in Items(shared)
                other == IF x # 0 /\ ~inLocal /\ ~inShared /\ \E o \in DOMAIN local : x \in Items(local[o])
                         THEN CHOOSE o \in DOMAIN local : x \in Items(local[o]) ELSE 0
                clause ==
                  IF x = 0 THEN (IF AllEmpty THEN "ok" ELSE "idle_empty")
                  ELSE IF inLocal THEN (IF PopOK(local[q], x) THEN "ok" ELSE "order")
                  ELSE IF inShared THEN (IF PopOK(shared, x) THEN "ok" ELSE "order")
                  \* an item that (by the steal events so far) still lies in another local queue: taken over by a steal whose
                  \* event is yet to come - but never while the popping queue holds items itself (a local queue steals only
                  \* when it is empty, and what it has stolen it pops oldest first)
                  ELSE IF other # 0 THEN (IF local[q] = <<>> /\ PopOK(local[other], x) THEN "ok" ELSE "order")
                  ELSE IF x \in outs THEN "dup"
                  ELSE "phantom"
                starved == x # 0 /\ ~inShared /\ waiting /\ since[q] + 1 >= Period
            IN /\ (clause # "ok" => Viol(clause, <<q, x, local[q], shared>>))
               /\ (starved => Viol("starved", <<q, x, since[q] + 1>>))
               /\ nviol' = nviol + (IF clause # "ok" THEN 1 ELSE 0) + (IF starved THEN 1 ELSE 0)
               /\ local' = [o \in DOMAIN local |-> RemoveItem(local[o], x)]
               /\ shared' = RemoveItem(shared, x)
               /\ outs' = IF x = 0 THEN outs ELSE outs \cup {x}
               /\ since' = [since EXCEPT ![q] = IF x = 0 \/ inShared \/ ~waiting THEN 0
                                                 ELSE IF starved THEN 0 ELSE @ + 1]
               /\ cur' = NoCur
               /\ UNCHANGED <<nq, cap, scen, pushed, drained>>
       [] ev = "gpop" ->
            LET x == r.item
                clause ==
                  IF x = 0 THEN (IF shared = <<>> THEN "ok" ELSE "gpop_empty")
                  ELSE IF x \in Items(shared) THEN (IF PopOK(shared, x) THEN "ok" ELSE "order")
                  ELSE IF x \in outs THEN "dup"
                  ELSE IF x \in Everywhere THEN "gpop_from_local"
                  ELSE "phantom"
            IN /\ (clause # "ok" => Viol(clause, <<0, x, shared>>))
               /\ nviol' = IF clause # "ok" THEN nviol + 1 ELSE nviol
               /\ local' = [o \in DOMAIN local |-> RemoveItem(local[o], x)]
               /\ shared' = RemoveItem(shared, x)
               /\ outs' = IF x = 0 THEN outs ELSE outs \cup {x}
               /\ UNCHANGED <<nq, cap, scen, pushed, since, cur, drained>>
       [] ev = "obs" ->
            LET bad == r.glen # Len(shared) IN
            /\ (bad => Viol("len", <<r.glen, Len(shared)>>))
            /\ nviol' = IF bad THEN nviol + 1 ELSE nviol
            /\ UNCHANGED <<nq, cap, scen, shared, local, outs, pushed, since, cur, drained>>
       [] ev = "drain_b" ->
            /\ drained' = TRUE
            /\ UNCHANGED <<nq, cap, scen, shared, local, outs, pushed, since, cur, nviol>>
       [] ev = "died" ->
            /\ Viol(r.how, <<r.step, r.msg>>)
            /\ nviol' = nviol + 1
            /\ cur' = NoCur /\ drained' = FALSE
            /\ UNCHANGED <<nq, cap, scen, shared, local, outs, pushed, since>>
       [] ev = "end" ->
            LET bad == drained /\ (~AllEmpty \/ outs # pushed) IN
            /\ (bad => Viol("lost", <<pushed \ outs, Everywhere>>))
            /\ nviol' = IF bad THEN nviol + 1 ELSE nviol
            /\ UNCHANGED <<nq, cap, scen, shared, local, outs, pushed, since, cur, drained>>

Spec == Init /\ [][Step]_vars

\* every record must be consumed; an unknown / malformed record stops the run early
Accepted ==
  /\ PrintT(<<"ACCEPT", TLCGet("stats").diameter - 1, N>>)
  /\ TLCGet("stats").diameter - 1 = N
=============================================================================
