------------------------------- MODULE IoUring -------------------------------
(* Hooked calls that go through io_uring (property C27, feature `io_uring`):  *)
(*   core/src/net/event_loop.rs   impl_io_uring! (EventLoop::<syscall>: token, *)
(*                                submit, insert into syscall_wait_table),     *)
(*                                adapt_io_uring (reap: remove slot, fill,     *)
(*                                notify, resume by token), EventLoop::token   *)
(*   core/src/syscall/unix/mod.rs impl_io_uring! / _read! / _write! (park or   *)
(*                                block, take the result, errno mapping; the   *)
(*                                read / write families give up on a timeout)  *)
(* Callers are coroutines (they run on the loop thread, so the loop cannot     *)
(* reap between their steps) and plain threads (it can).  One action per       *)
(* access to the wait table and per queue operation.  Every submission has a   *)
(* fresh number, which is also its result: a call must return its own number.  *)
(*                                                                             *)
(* Intended design (Deviations = {}): the slot is in the table before the      *)
(* kernel sees the submission, a call that gives up removes its slot, and a    *)
(* token names one submission.                                                 *)
(* Named deviations (the code as it is, and a seeded change):                  *)
(*  "submit_before_insert"  the submission is handed to the kernel first, the  *)
(*                          slot is made afterwards: a completion reaped in    *)
(*                          between finds no slot and is dropped - the thread  *)
(*                          that made the call waits for ever                  *)
(*  "timeout_keeps_slot"    a read / write that runs into its time limit       *)
(*                          returns without removing its slot: the caller's    *)
(*                          next call of the same kind finds the slot occupied *)
(*                          (assert -> abort)                                  *)
(*  "token_per_caller"      the token is the caller's id (coroutine id, or     *)
(*                          thread id + call name), not the submission: the    *)
(*                          late completion of an abandoned submission fills   *)
(*                          the caller's next call                             *)
(*  "sq_concurrent_push"    the ring's submission queue has one producer side, *)
(*                          but every calling thread pushes into it: read the  *)
(*                          tail, write the entry and the new tail are two     *)
(*                          steps, so two threads can write the same slot and  *)
(*                          one submission never reaches the kernel (the code  *)
(*                          before 93ec71c)                                    *)
(*  "token_ignores_thread"  thread callers of the same call share one token    *)
(*                          (seeded/C27)                                       *)
EXTENDS Naturals, Sequences, FiniteSets, TLC

CONSTANTS Cos, Threads, MaxCalls, Deviations
Callers == Cos \cup Threads
Dev(d) == d \in Deviations

VARIABLES pc,      \* [Callers -> "idle" | "submitted" | "slotted" | "waiting"]
          ncall,   \* [Callers -> calls started]
          cursid,  \* [Callers -> number of the submission of the call in progress]
          nxt,     \* next submission number
          kernel,  \* submissions the kernel is working on (or that sit in the submission queue): set of [sid, tok, idx]
          sqtail,  \* tail of the submission queue (index of the next entry)
          sqseen,  \* [Callers -> tail value a thread has read for the push it is making]
          cq,      \* completion queue: Seq([sid, tok])
          table,   \* the wait table: set of [tok, caller, sid]  (at most one entry per token)
          arc,     \* [submission number of a call -> 0 | result]  the result cell that call made for itself
          got,     \* [Callers -> Seq(result)] what the calls returned (0 = gave up on a timeout)
          viol
vars == <<pc, ncall, cursid, nxt, kernel, sqtail, sqseen, cq, table, arc, got, viol>>

Tok(c, sid) == IF Dev("token_per_caller") \/ Dev("token_ignores_thread")
               THEN (IF Dev("token_ignores_thread") /\ c \in Threads THEN "thread" ELSE c)
               ELSE sid
Slot(tok) == {e \in table : e.tok = tok}
\* the queue index only matters when pushes can collide
NextIdx == IF Dev("sq_concurrent_push") THEN sqtail ELSE 0
Bump == IF Dev("sq_concurrent_push") THEN sqtail + 1 ELSE sqtail

Init == /\ pc = [c \in Callers |-> "idle"] /\ ncall = [c \in Callers |-> 0] /\ cursid = [c \in Callers |-> 0]
        /\ nxt = 1 /\ kernel = {} /\ sqtail = 1 /\ sqseen = [c \in Callers |-> 0] /\ cq = <<>> /\ table = {} /\ arc = <<>>
        /\ got = [c \in Callers |-> <<>>] /\ viol = "none"
Go == viol = "none"

\* the slot is made: the previous one of the same token must be gone (the code asserts it)
MakeSlot(c, sid, tbl) == tbl \cup {[tok |-> Tok(c, sid), caller |-> c, sid |-> sid]}
Occupied(c, sid) == Slot(Tok(c, sid)) # {}

\* a call begins: (intended) slot, then submission - as one step for a coroutine, two for a thread
Begin(c) ==
  /\ Go /\ pc[c] = "idle" /\ ncall[c] < MaxCalls
  /\ ncall' = [ncall EXCEPT ![c] = @ + 1] /\ cursid' = [cursid EXCEPT ![c] = nxt] /\ nxt' = nxt + 1
  /\ arc' = Append(arc, 0)            \* the cell of submission number nxt (arc is indexed by submission number)
  /\ IF Dev("submit_before_insert")
     THEN \* submit first
          /\ kernel' = kernel \cup {[sid |-> nxt, tok |-> Tok(c, nxt), idx |-> NextIdx]} /\ sqtail' = Bump
          /\ IF c \in Cos
             THEN /\ viol' = IF Occupied(c, nxt) THEN "slot_occupied" ELSE viol
                  /\ table' = MakeSlot(c, nxt, table) /\ pc' = [pc EXCEPT ![c] = "waiting"]
             ELSE /\ pc' = [pc EXCEPT ![c] = "submitted"] /\ UNCHANGED <<table, viol>>
     ELSE \* slot first
          /\ viol' = IF Occupied(c, nxt) THEN "slot_occupied" ELSE viol
          /\ table' = MakeSlot(c, nxt, table)
          /\ IF c \in Cos
             THEN /\ kernel' = kernel \cup {[sid |-> nxt, tok |-> Tok(c, nxt), idx |-> NextIdx]} /\ sqtail' = Bump /\ pc' = [pc EXCEPT ![c] = "waiting"]
             ELSE /\ pc' = [pc EXCEPT ![c] = "slotted"] /\ UNCHANGED <<kernel, sqtail>>
  /\ UNCHANGED <<cq, got, sqseen>>
\* a thread's second step
Second(c) ==
  /\ Go /\ c \in Threads /\ pc[c] \in {"submitted", "slotted"}
  /\ IF pc[c] = "submitted"
     THEN /\ viol' = IF Occupied(c, cursid[c]) THEN "slot_occupied" ELSE viol
          /\ table' = MakeSlot(c, cursid[c], table) /\ pc' = [pc EXCEPT ![c] = "waiting"]
          /\ UNCHANGED <<kernel, sqtail, sqseen>>
     ELSE IF Dev("sq_concurrent_push")
          THEN \* first half of the push: read the tail
               /\ sqseen' = [sqseen EXCEPT ![c] = sqtail] /\ pc' = [pc EXCEPT ![c] = "pushing"]
               /\ UNCHANGED <<kernel, sqtail, table, viol>>
          ELSE /\ kernel' = kernel \cup {[sid |-> cursid[c], tok |-> Tok(c, cursid[c]), idx |-> NextIdx]}
               /\ sqtail' = Bump /\ pc' = [pc EXCEPT ![c] = "waiting"]
               /\ UNCHANGED <<table, viol, sqseen>>
  /\ UNCHANGED <<ncall, cursid, nxt, cq, arc, got>>
\* second half of an unsynchronised push: write the entry where the tail was, publish tail + 1
\* (an entry another thread wrote there meanwhile, and that the kernel has not taken yet, is gone)
PushStore(c) ==
  /\ Go /\ pc[c] = "pushing"
  /\ kernel' = {x \in kernel : x.idx # sqseen[c]} \cup {[sid |-> cursid[c], tok |-> Tok(c, cursid[c]), idx |-> sqseen[c]]}
  /\ sqtail' = sqseen[c] + 1 /\ pc' = [pc EXCEPT ![c] = "waiting"]
  /\ UNCHANGED <<ncall, cursid, nxt, sqseen, cq, table, arc, got, viol>>
\* the kernel finishes a submission
Complete(s) ==
  /\ Go /\ s \in kernel /\ kernel' = kernel \ {s} /\ cq' = Append(cq, s)
  /\ UNCHANGED <<pc, ncall, cursid, nxt, sqtail, sqseen, table, arc, got, viol>>
\* the loop thread reaps one completion: remove the slot of its token, fill the cell it points at
\* (not while a thread ... the loop only runs between coroutine steps, which Begin models as atomic)
Reap ==
  /\ Go /\ cq # <<>>
  /\ LET s == Head(cq) slot == Slot(s.tok) IN
     /\ cq' = Tail(cq) /\ table' = table \ slot
     /\ IF slot = {} THEN UNCHANGED <<arc, viol>>
        ELSE LET e == CHOOSE x \in slot : TRUE IN
             /\ arc' = [arc EXCEPT ![e.sid] = s.sid]
             /\ viol' = IF e.sid # s.sid THEN "misdelivery" ELSE viol
  /\ UNCHANGED <<pc, ncall, cursid, nxt, kernel, sqtail, sqseen, got>>
\* the caller wakes up with a result in its cell
Take(c) ==
  /\ Go /\ pc[c] = "waiting" /\ arc[cursid[c]] # 0
  /\ got' = [got EXCEPT ![c] = Append(@, arc[cursid[c]])]
  /\ viol' = IF arc[cursid[c]] # cursid[c] THEN "wrong_result" ELSE viol
  /\ pc' = [pc EXCEPT ![c] = "idle"]
  /\ UNCHANGED <<ncall, cursid, nxt, kernel, sqtail, sqseen, cq, table, arc>>
\* a coroutine's read / write runs into its time limit before the completion arrived
GiveUp(c) ==
  /\ Go /\ c \in Cos /\ pc[c] = "waiting" /\ arc[cursid[c]] = 0
  /\ got' = [got EXCEPT ![c] = Append(@, 0)]
  /\ table' = IF Dev("timeout_keeps_slot") THEN table ELSE {e \in table : e.caller # c}
  /\ pc' = [pc EXCEPT ![c] = "idle"]
  /\ UNCHANGED <<ncall, cursid, nxt, kernel, sqtail, sqseen, cq, arc, viol>>

Next == \/ \E c \in Callers : Begin(c) \/ Second(c) \/ PushStore(c) \/ Take(c) \/ GiveUp(c)
        \/ \E s \in kernel : Complete(s)
        \/ Reap
Spec == Init /\ [][Next]_vars /\ WF_vars(Next)

NoViolation == viol = "none"
\* C27: every call returns the result of its own submission (or gave up)
OwnResult == \A c \in Callers : \A i \in DOMAIN got[c] : got[c][i] = 0 \/ got[c][i] \in 1..(nxt - 1)
\* a completion that is on its way always has a slot to land in (nothing is dropped while its caller waits)
NoLostCompletion ==
  \A c \in Threads : pc[c] = "waiting" /\ arc[cursid[c]] = 0 =>
     \/ \E s \in kernel : s.sid = cursid[c]
     \/ \E i \in DOMAIN cq : cq[i].sid = cursid[c]
OneSlotPerToken == \A e1, e2 \in table : e1.tok = e2.tok => e1 = e2
\* every call that does not give up comes back
Returns == \A c \in Callers : [](pc[c] = "waiting" => <>(pc[c] = "idle"))
=============================================================================
