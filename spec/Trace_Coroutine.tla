--------------------------- MODULE Trace_Coroutine ---------------------------
(* Trace specification (observable layer, monitor form) of the coroutine    *)
(* lifecycle: validates traces recorded by harness/src/bin/coro.rs from the *)
(* real `Coroutine` against properties C07 (documented state machine, each  *)
(* change reported once with correct old/new state and callback, terminal   *)
(* states absorbing), C08 (values and panics cross the boundary faithfully) *)
(* and C09 (the wake-up time / cancellation reported for a yield is what    *)
(* that yield requested).                                                    *)
EXTENDS CoObs, TLC, Json, IOUtils, FiniteSets

Rec == ndJsonDeserialize(IOEnv.TRACE)
N == Len(Rec)

VARIABLES l, scen,
          tst,     \* [co -> tracked state], from the reported changes
          pend,    \* [co -> last body step announced]
          inres,   \* resume in progress: [co, arg, changed, stepped] or co = 0
          expcb,   \* callback expected next: [co, which] or co = 0
          nviol
vars == <<l, scen, tst, pend, inres, expcb, nviol>>

NoRes == [co |-> 0, arg |-> 0, changed |-> FALSE, stepped |-> FALSE, got |-> FALSE]
NoCb == [co |-> 0, which |-> ""]
NoStep == [a |-> "none", v |-> 0, ts |-> 0]

Init == l = 1 /\ scen = 0 /\ tst = <<>> /\ pend = <<>> /\ inres = NoRes /\ expcb = NoCb /\ nviol = 0

Viol(clause, detail) == PrintT(<<"VIOL", l, clause, scen, detail>>)

\* normalise a JSON state record to the CoObs representation (drops the raw message)
St(j) ==
  CASE j.k = "Suspend" -> Suspend(j.v, j.ts)
    [] j.k = "Syscall" -> Syscall(j.v, j.n, j.sub, j.sts)
    [] j.k = "Complete" -> Complete(j.r)
    [] j.k = "Error" -> Error(j.m)
    [] OTHER -> [k |-> j.k]

Count(b) == IF b THEN 1 ELSE 0

Step ==
  /\ l <= N /\ l' = l + 1
  /\ LET r == Rec[l] ev == r.ev IN
     CASE ev = "creset" ->
            /\ scen' = r.scenario /\ tst' = [c \in 1..r.k |-> Ready] /\ pend' = [c \in 1..r.k |-> NoStep]
            /\ inres' = NoRes /\ expcb' = NoCb /\ UNCHANGED nviol
       [] ev = "resume_b" ->
            LET bad == expcb.co # 0 IN
            /\ (bad => Viol("callback_missing", expcb))
            /\ inres' = [co |-> r.co, arg |-> r.arg, changed |-> FALSE, stepped |-> FALSE, got |-> FALSE]
            /\ expcb' = NoCb /\ nviol' = nviol + Count(bad)
            /\ UNCHANGED <<scen, tst, pend>>
       [] ev = "chg" ->
            LET c == r.co old == St(r.old) new == St(r.new)
                b1 == old # tst[c]
                b2 == ~EdgeOK(old, new)
                b3 == Terminal(tst[c])
                b4 == expcb.co # 0
                b5 == inres.co # c
            IN /\ (b1 => Viol("bad_old", <<c, tst[c], old, new>>))
               /\ (b2 => Viol("edge", <<c, old, new>>))
               /\ (b3 => Viol("left_terminal", <<c, tst[c], new>>))
               /\ (b4 => Viol("callback_missing", expcb))
               /\ (b5 => Viol("change_outside_resume", <<c, new>>))
               /\ nviol' = nviol + Count(b1) + Count(b2) + Count(b3) + Count(b4) + Count(b5)
               /\ tst' = [tst EXCEPT ![c] = new]
               /\ expcb' = [co |-> c, which |-> CallbackOf(new)]
               /\ inres' = IF inres.co = c THEN [inres EXCEPT !.changed = TRUE] ELSE inres
               /\ UNCHANGED <<scen, pend>>
       [] ev = "cb" ->
            LET bad == expcb.co # r.co \/ expcb.which # r.which IN
            /\ (bad => Viol("callback", <<r.co, r.which, expcb>>))
            /\ nviol' = nviol + Count(bad) /\ expcb' = NoCb
            /\ UNCHANGED <<scen, tst, pend, inres>>
       [] ev = "body" ->
            LET c == r.co
                b1 == inres.co # c
                b2 == inres.co = c /\ (inres.got \/ r.got # inres.arg)
                b3 == Terminal(tst[c])
            IN /\ (b1 => Viol("body_outside_resume", <<c, r.got>>))
               /\ (b2 => Viol("value_in", <<c, r.got, inres.arg>>))
               /\ (b3 => Viol("ran_after_terminal", <<c, tst[c]>>))
               /\ nviol' = nviol + Count(b1) + Count(b2) + Count(b3)
               /\ inres' = IF inres.co = c THEN [inres EXCEPT !.got = TRUE, !.stepped = TRUE] ELSE inres
               /\ UNCHANGED <<scen, tst, pend, expcb>>
       [] ev = "step" ->
            LET c == r.co
                b1 == inres.co # c
                b3 == Terminal(tst[c])
            IN /\ (b1 => Viol("body_outside_resume", <<c, r.a>>))
               /\ (b3 => Viol("ran_after_terminal", <<c, tst[c], r.a>>))
               /\ nviol' = nviol + Count(b1) + Count(b3)
               /\ pend' = [pend EXCEPT ![c] = [a |-> r.a, v |-> r.v, ts |-> r.ts]]
               /\ inres' = IF inres.co = c THEN [inres EXCEPT !.stepped = TRUE] ELSE inres
               /\ UNCHANGED <<scen, tst, expcb>>
       [] ev = "sysr" ->
            \* a syscall transition with a different name must be refused
            LET bad == r.a = "sys_other" /\ r.ok IN
            /\ (bad => Viol("illegal_accepted", <<r.co, r.a>>))
            /\ nviol' = nviol + Count(bad)
            /\ UNCHANGED <<scen, tst, pend, inres, expcb>>
       [] ev = "resume_e" ->
            LET c == r.co p == pend[c] s == IF r.ok THEN St(r.st) ELSE [k |-> "Err"]
                t == tst[c]
                yielded == inres.stepped      \* the body ran during this resume
                b1 == r.ok /\ s # t
                b2 == ~r.ok /\ (inres.changed \/ inres.stepped)
                b3 == ~r.ok /\ ( \/ t.k \in {"Ready", "Complete", "Error"}
                                 \/ (t.k = "Suspend" /\ Due(t.ts))
                                 \/ (t.k = "Syscall" /\ t.sub # "Suspend") )
                b4 == r.ok /\ yielded /\ s.k = "Suspend" /\ p.a \in {"suspend", "delay", "park"} /\ s.v # p.v
                b5 == r.ok /\ yielded /\ s.k = "Suspend" /\ p.a \in {"suspend", "delay", "park"} /\ s.ts # p.ts
                b6 == r.ok /\ yielded /\ s.k = "Cancelled" /\ p.a # "cancel"
                b7 == r.ok /\ yielded /\ p.a = "cancel" /\ s.k \in {"Suspend", "Running", "Ready"}
                b8 == r.ok /\ yielded /\ s.k = "Complete" /\ (p.a # "return" \/ s.r # p.v)
                b9 == r.ok /\ yielded /\ s.k = "Error" /\ p.a = "panic" /\ s.m # p.v
                b14 == r.ok /\ yielded /\ s.k = "Error" /\ p.a = "fault"
                         /\ (IF p.v = 900000 THEN s.m \notin {900001, 900002} ELSE s.m # p.v)
                b15 == r.ok /\ yielded /\ p.a = "fault" /\ s.k # "Error"
                b10 == r.ok /\ yielded /\ p.a = "return" /\ s.k # "Complete"
                b11 == r.ok /\ yielded /\ p.a = "panic" /\ s.k # "Error"
                b12 == expcb.co # 0
                b13 == r.ok /\ yielded /\ s.k = "Error" /\ p.a \notin {"panic", "fault"}
            IN /\ (b1 => Viol("result_state", <<c, s, t>>))
               /\ (b2 => Viol("refused_but_changed", <<c, t>>))
               /\ (b3 => Viol("refused_legal", <<c, t>>))
               /\ (b4 => Viol("value_out", <<c, s, p>>))
               /\ (b5 => Viol("foreign_timestamp", <<c, s, p>>))
               /\ (b6 => Viol("foreign_cancel", <<c, s, p>>))
               /\ (b7 => Viol("cancel_lost", <<c, s, p>>))
               /\ (b8 => Viol("value_out", <<c, s, p>>))
               /\ (b9 => Viol("panic_message", <<c, s, p>>))
               /\ (b10 => Viol("return_lost", <<c, s, p>>))
               /\ (b11 => Viol("panic_lost", <<c, s, p>>))
               /\ (b12 => Viol("callback_missing", expcb))
               /\ (b13 => Viol("spurious_error", <<c, s, p>>))
               /\ (b14 => Viol("fault_message", <<c, s, p>>))
               /\ (b15 => Viol("fault_not_error", <<c, s, p>>))
               /\ nviol' = nviol + Count(b1) + Count(b2) + Count(b3) + Count(b4) + Count(b5) + Count(b6)
                            + Count(b7) + Count(b8) + Count(b9) + Count(b10) + Count(b11) + Count(b12) + Count(b13) + Count(b14) + Count(b15)
               /\ inres' = NoRes /\ expcb' = NoCb
               /\ UNCHANGED <<scen, tst, pend>>
       [] ev = "state" ->
            LET bad == St(r.st) # tst[r.co] IN
            /\ (bad => Viol("unreported_change", <<r.co, St(r.st), tst[r.co]>>))
            /\ nviol' = nviol + Count(bad)
            /\ tst' = [tst EXCEPT ![r.co] = St(r.st)]
            /\ UNCHANGED <<scen, pend, inres, expcb>>
       [] ev = "cur" ->
            /\ (r.some => Viol("current_leak", <<>>))
            /\ (r.susp => Viol("suspender_leak", <<>>))
            /\ nviol' = nviol + Count(r.some) + Count(r.susp)
            /\ UNCHANGED <<scen, tst, pend, inres, expcb>>
       [] ev = "died" ->
            /\ Viol(r.how, r.msg) /\ nviol' = nviol + 1 /\ inres' = NoRes /\ expcb' = NoCb
            /\ UNCHANGED <<scen, tst, pend>>
       [] ev = "post_b" -> UNCHANGED <<scen, tst, pend, inres, expcb, nviol>>
       [] ev = "post_e" ->
            LET bad == r.ret # 0 \/ r.ms > 500 IN
            /\ (bad => Viol("thread_not_normal", r))
            /\ nviol' = nviol + Count(bad) /\ UNCHANGED <<scen, tst, pend, inres, expcb>>
       [] ev = "cend" -> UNCHANGED <<scen, tst, pend, inres, expcb, nviol>>

Spec == Init /\ [][Step]_vars
Accepted == /\ PrintT(<<"ACCEPT", TLCGet("stats").diameter - 1, N>>)
            /\ TLCGet("stats").diameter - 1 = N
=============================================================================
