SPECIFICATION Spec
CONSTANTS
  MaxCalls = 3
  Deviations = {}
INVARIANTS NonblockNeverWaits ModeRestored NeverAsksBlocking ReturnOK
CHECK_DEADLOCK FALSE
