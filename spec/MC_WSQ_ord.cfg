SPECIFICATION Spec
CONSTANTS
  NQ = 2
  Cap = 2
  Prios = {0, 1}
  Period = 3
  MaxItems = 5
  MaxOps = 9
  Ordered = TRUE
  Deviations = {}
VIEW view
INVARIANTS TypeOK Conserve LenExact NoViolation WorkerBound
CHECK_DEADLOCK FALSE
