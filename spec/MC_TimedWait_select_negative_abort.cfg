SPECIFICATION Spec
CONSTANTS
  MaxT = 40
  Slice = 10
  Deviations = {"select_negative_abort"}
INVARIANTS NeverEarly NotLate InvalidRejected
PROPERTIES Terminates
CHECK_DEADLOCK FALSE
