SPECIFICATION Spec
CONSTANTS
  MaxT = 40
  Slice = 10
  Deviations = {"eintr_ends_wait"}
INVARIANTS NeverEarly NotLate InvalidRejected
PROPERTIES Terminates
CHECK_DEADLOCK FALSE
