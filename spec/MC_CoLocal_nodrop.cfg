SPECIFICATION Spec
CONSTANTS
  NCo = 2
  Keys = {"k1", "k2"}
  MaxOps = 6
  Deviations = {"no_drop"}
VIEW view
INVARIANTS Accounted NoAlias
PROPERTIES Private
CHECK_DEADLOCK FALSE
