------------------------------- MODULE TimeOps -------------------------------
(* Pure operators of the time helpers (property C28), shared by the model    *)
(* TimeHelpers.tla and the trace specification Trace_TimeHelpers.tla.        *)
EXTENDS Naturals, Sequences
CONSTANTS W, NsPerSec, NsPerUsec
MAX == 2^W - 1
SatAdd(a, b) == IF a + b > MAX THEN MAX ELSE a + b
SatMul(a, b) == IF a * b > MAX THEN MAX ELSE a * b

Deadline(d, now) == IF d > MAX THEN MAX ELSE SatAdd(d, now)
Limit(sec, usec) == LET t == SatAdd(SatMul(sec, NsPerSec), SatMul(usec, NsPerUsec)) IN IF t = 0 THEN MAX ELSE t

RECURSIVE Sum(_)
Sum(s) == IF s = <<>> THEN 0 ELSE Head(s) + Sum(Tail(s))


\* closed form of get_slices for a non-zero slice
RECURSIVE SlicesOf(_, _)
SlicesOf(total, slice) == IF total = 0 THEN <<>>
                          ELSE IF total > slice THEN <<slice>> \o SlicesOf(total - slice, slice)
                          ELSE <<total>>
=============================================================================
