------------------------------ MODULE NioSyscall ------------------------------
(* Design model of the hooked socket I/O loops of core/src/syscall/unix        *)
(* (impl_nio_read_buf / write_buf / read_iovec / write_iovec, recvmsg, sendmsg) *)
(* - properties C16, C17, C18.  One call: the caller's request shape, the       *)
(* kernel's responses (chosen step by step: partial transfer, would-block,      *)
(* interruption, end of stream, error), the wait for readiness with its         *)
(* timeout, and the value returned.                                             *)
(* Named deviations (behaviour of the code as it is):                           *)
(*  "zero_len_minus_one"  a zero-length request never calls the kernel and      *)
(*                        returns -1                                            *)
(*  "err_after_partial"   an error after some bytes were moved returns -1       *)
(*  "nonblock_waits"      a descriptor the caller made non-blocking is waited   *)
(*                        on instead of returning EAGAIN                        *)
(*  "iov_offset_twice"    (vectored) after a partial transfer into a buffer     *)
(*                        followed by a retry, the offset is applied again to   *)
(*                        the already advanced entry                            *)
(*  "msg_iovlen_stale"    (recvmsg / sendmsg) msg_iovlen keeps the caller's     *)
(*                        count although the array passed is shorter            *)
EXTENDS NioOps, FiniteSets, TLC, Json

CONSTANTS Shapes,       \* set of request shapes (sequences of buffer lengths)
          MaxN,         \* largest single transfer the kernel makes
          MaxCalls,     \* bound on kernel calls per request
          Deviations

Dev(d) == d \in Deviations
EAGAIN == 11
ECONNRESET == 104

VARIABLES shape, vec, msg, isRead, nonblock,
          total, pc, req, cnt, retried, applied, ret, errno, ncalls, waited, script, viol
vars == <<shape, vec, msg, isRead, nonblock, total, pc, req, cnt, retried, applied, ret, errno, ncalls, waited, script, viol>>

Init ==
  /\ shape \in Shapes /\ vec \in BOOLEAN /\ msg \in BOOLEAN /\ isRead \in BOOLEAN /\ nonblock \in BOOLEAN
  /\ (msg => vec) /\ (~vec => Len(shape) = 1)
  /\ total = 0 /\ pc = "start" /\ req = <<>> /\ cnt = 0 /\ retried = FALSE /\ applied = 0
  /\ ret = 0 /\ errno = 0 /\ ncalls = 0 /\ waited = FALSE /\ script = <<>> /\ viol = "none"

Sum == SumSeq(shape)

Start ==
  /\ pc = "start"
  /\ IF Sum = 0
     THEN /\ pc' = "done" /\ ret' = IF Dev("zero_len_minus_one") THEN -1 ELSE 0
          /\ errno' = IF Dev("zero_len_minus_one") THEN EAGAIN ELSE 0
     ELSE pc' = "call" /\ UNCHANGED <<ret, errno>>
  /\ UNCHANGED <<shape, vec, msg, isRead, nonblock, total, req, cnt, retried, applied, ncalls, waited, script, viol>>

\* the request handed to the kernel
BuildReq ==
  LET good == Remainder(shape, total) IN
  IF Dev("iov_offset_twice") /\ vec /\ retried /\ applied > 0 /\ good # <<>>
  THEN \* the first entry was already advanced by `applied`; the offset is added once more
       LET e == good[1] extra == IF applied <= e[3] THEN applied ELSE e[3]
       IN <<<<e[1], e[2] + extra, e[3] - extra>>>> \o Tail(good)
  ELSE good

Call ==
  /\ pc = "call" /\ ncalls < MaxCalls
  /\ LET r == BuildReq IN
     /\ req' = r
     /\ cnt' = IF Dev("msg_iovlen_stale") /\ msg THEN Len(shape) ELSE Len(r)
     /\ viol' = IF NonEmpty(r) # NonEmpty(Remainder(shape, total)) THEN "iov_range"
                ELSE IF vec /\ (IF Dev("msg_iovlen_stale") /\ msg THEN Len(shape) ELSE Len(r)) # Len(r) THEN "iov_count"
                ELSE viol
  /\ ncalls' = ncalls + 1 /\ pc' = "resp"
  /\ UNCHANGED <<shape, vec, msg, isRead, nonblock, total, retried, applied, ret, errno, waited, script>>

Finish(r, e) == pc' = "done" /\ ret' = r /\ errno' = e

Resp(kind, n) ==
  /\ pc = "resp" /\ viol = "none"
  /\ script' = Append(script, [k |-> kind, n |-> n])
  /\ CASE kind = "xfer" ->
            LET room == SumSeq([i \in DOMAIN req |-> req[i][3]])
                m == IF n <= room THEN n ELSE room
                t2 == total + m
                inbuf == Remainder(shape, total)
            IN /\ n \in 1..MaxN /\ room > 0
               /\ total' = t2
               \* a transfer that ends inside a buffer leaves an offset to apply on the next request
               /\ applied' = IF Remainder(shape, t2) # <<>> THEN Remainder(shape, t2)[1][2] ELSE 0
               /\ retried' = FALSE
               /\ IF t2 >= Sum THEN Finish(t2, 0) ELSE pc' = "call" /\ UNCHANGED <<ret, errno>>
               /\ UNCHANGED waited
       [] kind = "eof" ->
            /\ n = 0 /\ isRead /\ Finish(total, 0) /\ UNCHANGED <<total, applied, retried, waited>>
       [] kind = "intr" ->
            /\ n = 0 /\ pc' = "call" /\ retried' = TRUE /\ UNCHANGED <<total, applied, ret, errno, waited>>
       [] kind = "err" ->
            /\ n = 0
            /\ IF total > 0 /\ ~Dev("err_after_partial") THEN Finish(total, 0) ELSE Finish(-1, ECONNRESET)
            /\ UNCHANGED <<total, applied, retried, waited>>
       [] kind = "wouldblock" ->
            /\ n = 0
            /\ IF nonblock /\ ~Dev("nonblock_waits")
               THEN (IF total > 0 THEN Finish(total, 0) ELSE Finish(-1, EAGAIN)) /\ UNCHANGED waited
               ELSE pc' = "wait" /\ waited' = TRUE /\ UNCHANGED <<ret, errno>>
            /\ retried' = TRUE /\ UNCHANGED <<total, applied>>
  /\ UNCHANGED <<shape, vec, msg, isRead, nonblock, req, cnt, ncalls, viol>>

\* the wait for readiness ends because the descriptor is ready, or because the time limit passed
WaitReady == /\ pc = "wait" /\ pc' = "call"
             /\ UNCHANGED <<shape, vec, msg, isRead, nonblock, total, req, cnt, retried, applied, ret, errno, ncalls, waited, script, viol>>
WaitTimeout == /\ pc = "wait" /\ (IF total > 0 THEN Finish(total, 0) ELSE Finish(-1, EAGAIN))
               /\ script' = Append(script, [k |-> "timeout", n |-> 0])
               /\ UNCHANGED <<shape, vec, msg, isRead, nonblock, total, req, cnt, retried, applied, ncalls, waited, viol>>

Next == Start \/ Call \/ WaitReady \/ WaitTimeout
        \/ \E kind \in {"xfer", "eof", "intr", "err", "wouldblock"}, n \in 0..MaxN : Resp(kind, n)
Spec == Init /\ [][Next]_vars

------------------------------------------------------------------------------
\* C17: every request handed down is the caller's unfilled remainder, and its count is its length
RequestOK == viol = "none"
\* C16: the call reports exactly what it moved
ReturnOK == pc = "done" =>
              /\ (total > 0 => ret = total)
              /\ (total = 0 /\ Sum = 0 => ret = 0)
              /\ (ret = -1 => total = 0 /\ errno # 0)
              /\ (ret >= 0 => ret = total)
\* C18: a descriptor the caller made non-blocking is never waited on
NonblockNeverWaits == nonblock => ~waited
DumpScript == pc = "done" => PrintT(<<"REPLAY", ToJson([shape |-> shape, vec |-> vec, msg |-> msg, isRead |-> isRead,
                                                         nonblock |-> nonblock, script |-> script])>>)
=============================================================================
