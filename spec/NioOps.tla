-------------------------------- MODULE NioOps --------------------------------
(* Pure operators for the hooked socket I/O loops (properties C16, C17, C18),  *)
(* shared by the design model NioSyscall.tla and the trace specification.      *)
(* A request *shape* is the sequence of the caller's buffer lengths (one       *)
(* element for read/recv/write/send, several for readv/writev/recvmsg/sendmsg).*)
(* `total` is the number of bytes moved so far.                                *)
EXTENDS Naturals, Integers, Sequences

RECURSIVE SumSeq(_)
SumSeq(s) == IF s = <<>> THEN 0 ELSE Head(s) + SumSeq(Tail(s))

\* what a vectored call must hand to the kernel after `total` bytes have been moved:
\* the unfilled tail of the partly filled buffer, then the untouched buffers, in order;
\* entries are <<buffer index, offset, length>>; completely filled buffers are left out
RECURSIVE RemainderFrom(_, _, _)
RemainderFrom(shape, total, i) ==
  IF i > Len(shape) THEN <<>>
  ELSE IF total >= shape[i] THEN RemainderFrom(shape, total - shape[i], i + 1)
  ELSE <<<<i, total, shape[i] - total>>>> \o RemainderFrom(shape, 0, i + 1)

Remainder(shape, total) == RemainderFrom(shape, total, 1)

\* zero-length entries carry no bytes: two requests are equivalent for the kernel if they agree
\* after dropping them
NonEmpty(iov) == SelectSeq(iov, LAMBDA e : e[3] > 0)

\* the bytes of the stream are 1, 2, 3, ...; after `total` bytes were read the caller's buffers,
\* concatenated, must hold 1..total followed by untouched (0) bytes
RECURSIVE Concat(_)
Concat(bufs) == IF bufs = <<>> THEN <<>> ELSE Head(bufs) \o Concat(Tail(bufs))
Expected(shape, total) == [i \in 1..SumSeq(shape) |-> IF i <= total THEN i ELSE 0]
PrefixOK(sent, total) == sent = [i \in 1..total |-> i]
=============================================================================
